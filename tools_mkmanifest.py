#!/usr/bin/env python3
"""Regenerates /verif/MANIFEST.json from checks.json + manifest_meta.json (kept in sync by hand-run)."""
import json, os
V = os.path.dirname(os.path.abspath(__file__))
checks = json.load(open(os.path.join(V, 'checks.json')))
meta = json.load(open(os.path.join(V, 'manifest_meta.json')))
props = [json.loads(l) for l in open(os.path.join(V, 'properties.jsonl'))]
out = {
  "version": 1,
  "setup_cmd": "cd /verif/gosym && GOFLAGS=-mod=mod GOPROXY=off GOSUMDB=off GOTOOLCHAIN=local go build -o /verif/bin/verifcheck ./cmd/verifcheck",
  "hooks": meta["hooks"],
  "engines": [{
    "name": "gosym", "path": "/verif/gosym",
    "serves_properties": sorted(checks.keys()),
    "kind_free_text": "forking symbolic executor for Go SSA (fork of x/tools go/ssa/interp v0.29.0): scalars are SMT bit-vector/Bool/Float64 terms, heap shape concrete; z3 4.8.12 decides branch feasibility and assertions (cvc5 for floating point and cross-checks); counterexamples are replayed natively with go test before being reported"
  }],
  "checks": [],
  "notes": meta.get("notes", ""),
  "not_applicable": [],
}
for p in props:
    pid = p["id"]
    if pid in checks and pid in meta["checks"]:
        m = meta["checks"][pid]
        out["checks"].append({
            "property_id": pid,
            "quick_cmd": f"/verif/bin/verifcheck {pid} quick",
            "thorough_cmd": f"/verif/bin/verifcheck {pid} thorough",
            "evidence_file": f"/verif/evidence/{pid}.json",
            "replay_cmd_template": "/verif/bin/verifcheck replay {path}",
            "engine": "gosym",
            "level_claimed": {"category": "model_checking", "text": m["text"], "design_ref": m.get("design_ref", "DESIGN.md section 4 " + pid)},
            "level_note": m["note"],
            "technique": m.get("technique", "bounded symbolic execution of the real functions (go/ssa) with SMT-decided branches and assertions; native replay of counterexamples"),
        })
    else:
        out["not_applicable"].append({"property_id": pid, "reason": meta["not_applicable"].get(pid, "check not built yet in this session (engine exists; harness pending)")})
json.dump(out, open(os.path.join(V, 'MANIFEST.json'), 'w'), indent=1)
print("checks:", [c["property_id"] for c in out["checks"]], "n/a:", [n["property_id"] for n in out["not_applicable"]])
