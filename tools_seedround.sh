#!/bin/sh
# usage: tools_seedround.sh <round-dir> <round-no> <Cxx> [...]
# For each property: confirm the sub-agent's seed in a fresh worktree (tools_seedconfirm.sh),
# then run the property's quick check against it as the checks stand (tools_seedcheck.sh).
rd=$1; rn=$2; shift 2
mkdir -p $rd/results
for p in "$@"; do
  id=S-$p-$rn
  /verif/tools_seedconfirm.sh $rd/$p $id > $rd/results/$id.confirm 2>&1
  if grep -q "seed $id: ok" $rd/results/$id.confirm; then
    /verif/tools_seedcheck.sh $id quick $p > $rd/results/$id.asdelivered 2>&1
  fi
  echo "$id $(grep "^seed $id" $rd/results/$id.confirm) | $(grep -c '^VIOLATION' $rd/results/$id.asdelivered 2>/dev/null) violations | $(grep -m1 'exit=' $rd/results/$id.asdelivered 2>/dev/null)"
done
