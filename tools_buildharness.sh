#!/bin/sh
# Compiles /repo with every harness overlaid (tag verif): run after editing anything under /verif/harness.
set -e
T=$(mktemp -d)
trap 'rm -rf "$T"' EXIT
python3 - "$T" <<'PY'
import json,os,sys,glob
T=sys.argv[1]
pk={"storage":("storage","storage"),"sql":("sql","sql"),"engine":("engine","engine"),"console":("cmd/console","main"),"csvimport":("cmd/csvimport","main")}
rep={}
for h,(d,pkg) in pk.items():
    files=glob.glob(f"/verif/harness/{h}/*.go")
    if not files and h!="storage": continue
    for f in files: rep[f"/repo/{d}/{os.path.basename(f)}"]=f
    for tmpl,name in (("zz_verif_rt.go.tmpl","zz_verif_rt.go"),("zz_verif_replay_test.go.tmpl","zz_verif_replay_test.go")):
        src=open(f"/verif/harness/rt/{tmpl}").read().replace("PKGNAME",pkg)
        real=f"{T}/{h}_{name}"; open(real,"w").write(src); rep[f"/repo/{d}/{name}"]=real
json.dump({"Replace":rep},open(f"{T}/ov.json","w"))
PY
cd /repo && GOFLAGS=-mod=mod GOPROXY=off GOSUMDB=off GOTOOLCHAIN=local go test -count=1 -vet=off -run XXX_NONE -tags verif -overlay "$T/ov.json" ./... 2>&1 | grep -v "^#" | head -30
echo "harness build done"
