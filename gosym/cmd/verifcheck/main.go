// verifcheck drives the gosym engine: it explores the harnesses of one property
// over the current /repo source, confirms counterexamples natively, matches
// them against known findings and writes the evidence file.
package main

import (
	"bufio"
	"encoding/json"
	"fmt"
	"os"
	"os/exec"
	"path/filepath"
	"regexp"
	"runtime"
	"runtime/debug"
	"runtime/pprof"
	"sort"
	"strconv"
	"strings"
	"sync"
	"time"

	"gosym/interp"
)

const modPath = "github.com/mk6i/mkdb"

var (
	verifDir = envOr("VERIF_DIR", "/verif")
	repoDir  = envOr("VERIF_REPO", "/repo")
)

func envOr(k, d string) string {
	if v := os.Getenv(k); v != "" {
		return v
	}
	return d
}

// harness directory name -> package directory inside the repository
var pkgDirs = map[string]string{
	"storage": "storage", "sql": "sql", "engine": "engine",
	"console": "cmd/console", "csvimport": "cmd/csvimport",
}

var pkgNames = map[string]string{
	"storage": "storage", "sql": "sql", "engine": "engine", "console": "main", "csvimport": "main",
}

func main() {
	if len(os.Args) < 2 {
		usage()
	}
	switch os.Args[1] {
	case "worker":
		workerMain()
	case "replay":
		if len(os.Args) < 3 {
			usage()
		}
		os.Exit(replayMain(os.Args[2]))
	case "harness":
		os.Exit(devHarness(os.Args[2:]))
	case "list":
		listMain()
	case "selftest":
		seed, _ := strconv.ParseInt(os.Getenv("VERIF_SEED"), 10, 64)
		r := interp.SelfTest(seed)
		fmt.Printf("operator self-test: %d cases, %d solver queries, %d failures\n", r.Cases, r.Queries, len(r.Failures))
		for _, f := range r.Failures {
			fmt.Println("  " + f)
		}
		if len(r.Failures) > 0 {
			os.Exit(2)
		}
	default:
		if len(os.Args) < 3 {
			usage()
		}
		os.Exit(checkMain(os.Args[1], os.Args[2]))
	}
}

func usage() {
	fmt.Fprintln(os.Stderr, "usage: verifcheck <Cxx> quick|thorough | replay <file> | harness <name> [k=v ...] | selftest | list | worker")
	os.Exit(2)
}

// ---------------------------------------------------------------- overlay

type overlaySet struct {
	engine map[string][]byte // virtual path -> content
	native map[string]string // virtual path -> real path
	tmp    string
}

func buildOverlay() (*overlaySet, error) {
	ov := &overlaySet{engine: map[string][]byte{}, native: map[string]string{}}
	tmp, err := os.MkdirTemp("", "verif-ov")
	if err != nil {
		return nil, err
	}
	ov.tmp = tmp
	rt, err := os.ReadFile(filepath.Join(verifDir, "harness/rt/zz_verif_rt.go.tmpl"))
	if err != nil {
		return nil, err
	}
	rtTest, err := os.ReadFile(filepath.Join(verifDir, "harness/rt/zz_verif_replay_test.go.tmpl"))
	if err != nil {
		return nil, err
	}
	for h, dir := range pkgDirs {
		files, _ := filepath.Glob(filepath.Join(verifDir, "harness", h, "*.go"))
		if os.Getenv("VERIF_DEV") != "" {
			// engine-development harnesses (library battery), never part of a registered check
			dev, _ := filepath.Glob(filepath.Join(verifDir, "harness", "dev", h, "*.go"))
			files = append(files, dev...)
		}
		if len(files) == 0 && h != "storage" {
			continue
		}
		target := filepath.Join(repoDir, dir)
		for _, f := range files {
			if excludedHarnessFile(filepath.Base(f)) {
				continue
			}
			b, err := os.ReadFile(f)
			if err != nil {
				return nil, err
			}
			v := filepath.Join(target, filepath.Base(f))
			ov.engine[v] = b
			ov.native[v] = f
		}
		gen := func(tmpl []byte, name string) error {
			src := []byte(strings.ReplaceAll(string(tmpl), "PKGNAME", pkgNames[h]))
			real := filepath.Join(tmp, h+"_"+name)
			if err := os.WriteFile(real, src, 0644); err != nil {
				return err
			}
			v := filepath.Join(target, name)
			ov.native[v] = real
			if !strings.HasSuffix(name, "_test.go") {
				ov.engine[v] = src
			}
			return nil
		}
		if err := gen(rt, "zz_verif_rt.go"); err != nil {
			return nil, err
		}
		if err := gen(rtTest, "zz_verif_replay_test.go"); err != nil {
			return nil, err
		}
	}
	js, _ := json.Marshal(map[string]interface{}{"Replace": ov.native})
	if err := os.WriteFile(filepath.Join(tmp, "overlay.json"), js, 0644); err != nil {
		return nil, err
	}
	return ov, nil
}

func excludedHarnessFile(base string) bool {
	for _, x := range strings.Split(os.Getenv("VERIF_EXCLUDE_FILES"), ",") {
		if x != "" && x == base {
			return true
		}
	}
	return false
}

var harnessFileErr = regexp.MustCompile(`(zz_verif_c[0-9a-z_]*\.go):[0-9]+`)

// excludeBrokenHarnessFiles compiles the tree with the harness overlay (go build,
// tag verif). Harness files are in-package and call internal functions, so a
// change of a signature in the tree under test can stop one of them from
// compiling. Rather than leaving the whole property undecided, such files are
// left out (VERIF_EXCLUDE_FILES, inherited by the workers) and named; their
// harnesses are reported as not decided, the others run. Errors outside harness
// files (the tree itself does not compile) are left for the loader to report.
func excludeBrokenHarnessFiles() []string {
	var dropped []string
	for round := 0; round < 4; round++ {
		ov, err := buildOverlay()
		if err != nil {
			return dropped
		}
		cmd := exec.Command("go", "build", "-tags", "verif", "-overlay", filepath.Join(ov.tmp, "overlay.json"), "./...")
		cmd.Dir = repoDir
		cmd.Env = append(os.Environ(), "GOFLAGS=-mod=mod", "GOPROXY=off", "GOSUMDB=off", "GOTOOLCHAIN=local")
		out, berr := cmd.CombinedOutput()
		ov.cleanup()
		if berr == nil {
			return dropped
		}
		found := map[string]bool{}
		for _, m := range harnessFileErr.FindAllStringSubmatch(string(out), -1) {
			found[m[1]] = true
		}
		if len(found) == 0 {
			return dropped
		}
		cur := os.Getenv("VERIF_EXCLUDE_FILES")
		for f := range found {
			dropped = append(dropped, f)
			cur += "," + f
		}
		os.Setenv("VERIF_EXCLUDE_FILES", cur)
	}
	return dropped
}

func (ov *overlaySet) cleanup() {
	if ov != nil && ov.tmp != "" {
		os.RemoveAll(ov.tmp)
	}
}

// ---------------------------------------------------------------- worker

func workerMain() {
	// the loaded program (SSA + types) is a large, long-lived heap: collect rarely
	debug.SetGCPercent(400)
	runtime.GOMAXPROCS(2)
	if pf := os.Getenv("GOSYM_CPUPROFILE"); pf != "" {
		f, _ := os.Create(fmt.Sprintf("%s.%d", pf, os.Getpid()))
		pprof.StartCPUProfile(f)
		defer pprof.StopCPUProfile()
	}
	ov, err := buildOverlay()
	if err != nil {
		fmt.Fprintln(os.Stderr, "worker: overlay:", err)
		os.Exit(3)
	}
	defer ov.cleanup()
	w, err := interp.Load(interp.LoadConfig{
		RepoDir: repoDir, ModPath: modPath, Overlay: ov.engine, Patterns: []string{"./..."}, Tags: "verif",
	})
	ov.cleanup()
	if err != nil {
		fmt.Fprintln(os.Stderr, "worker: load:", err)
		fmt.Println(`{"fatal":` + strconv.Quote(err.Error()) + `}`)
		os.Exit(3)
	}
	_ = w
	in := bufio.NewReaderSize(os.Stdin, 1<<20)
	out := bufio.NewWriterSize(os.Stdout, 1<<20)
	fmt.Fprintln(out, `{"ready":true}`)
	out.Flush()
	for {
		line, err := in.ReadBytes('\n')
		if len(line) == 0 && err != nil {
			return
		}
		var req workerReq
		if e := json.Unmarshal(line, &req); e != nil {
			fmt.Fprintln(os.Stderr, "worker: bad job:", e)
			continue
		}
		switch req.Op {
		case "static":
			a, r := w.StaticIDs(req.Job.Harness)
			sort.Strings(a)
			sort.Strings(r)
			js, _ := json.Marshal(map[string]interface{}{"asserts": a, "reach": r, "known": contains(w.Harnesses(), req.Job.Harness)})
			out.Write(js)
		default:
			res := interp.RunPath(&req.Job)
			js, _ := json.Marshal(res)
			out.Write(js)
		}
		out.WriteByte('\n')
		out.Flush()
		if err != nil {
			return
		}
	}
}

func contains(l []string, s string) bool {
	for _, x := range l {
		if x == s {
			return true
		}
	}
	return false
}

type workerReq struct {
	Op  string     `json:"op"`
	Job interp.Job `json:"job"`
}

type worker struct {
	stdin interface{}
	cmd   *exec.Cmd
	in    *bufio.Writer
	out   *bufio.Reader
	id    int
}

func startWorker(id int) (*worker, error) {
	self, err := os.Executable()
	if err != nil {
		return nil, err
	}
	cmd := exec.Command(self, "worker")
	cmd.Env = append(os.Environ(), "VERIF_DIR="+verifDir, "VERIF_REPO="+repoDir)
	cmd.Stderr = os.Stderr
	stdin, err := cmd.StdinPipe()
	if err != nil {
		return nil, err
	}
	stdout, err := cmd.StdoutPipe()
	if err != nil {
		return nil, err
	}
	if err := cmd.Start(); err != nil {
		return nil, err
	}
	w := &worker{stdin: stdin, cmd: cmd, in: bufio.NewWriterSize(stdin, 1<<20), out: bufio.NewReaderSize(stdout, 1<<20), id: id}
	line, err := w.out.ReadBytes('\n')
	if err != nil {
		return nil, fmt.Errorf("worker %d did not start: %v", id, err)
	}
	if !strings.Contains(string(line), "ready") {
		return nil, fmt.Errorf("worker %d: %s", id, strings.TrimSpace(string(line)))
	}
	return w, nil
}

func (w *worker) do(req workerReq, v interface{}) error {
	js, _ := json.Marshal(req)
	w.in.Write(js)
	w.in.WriteByte('\n')
	if err := w.in.Flush(); err != nil {
		return err
	}
	line, err := w.out.ReadBytes('\n')
	if err != nil {
		return fmt.Errorf("worker %d died: %v", w.id, err)
	}
	return json.Unmarshal(line, v)
}

func (w *worker) stop() {
	if w == nil || w.cmd == nil {
		return
	}
	if os.Getenv("GOSYM_CPUPROFILE") != "" {
		w.in.Flush()
		if c, ok := w.stdin.(interface{ Close() error }); ok {
			c.Close()
		}
		w.cmd.Wait()
		return
	}
	w.cmd.Process.Kill()
	w.cmd.Wait()
}

type pool struct {
	ws []*worker
}

func startPool(n int) (*pool, error) {
	p := &pool{}
	var mu sync.Mutex
	var wg sync.WaitGroup
	var firstErr error
	for i := 0; i < n; i++ {
		wg.Add(1)
		go func(i int) {
			defer wg.Done()
			w, err := startWorker(i)
			mu.Lock()
			defer mu.Unlock()
			if err != nil {
				if firstErr == nil {
					firstErr = err
				}
				return
			}
			p.ws = append(p.ws, w)
		}(i)
	}
	wg.Wait()
	if len(p.ws) == 0 {
		return nil, firstErr
	}
	return p, nil
}

func (p *pool) stop() {
	for _, w := range p.ws {
		w.stop()
	}
}

// ---------------------------------------------------------------- configuration

type tierCfg struct {
	Configs  []map[string]int `json:"configs"`
	MaxPaths int              `json:"max_paths"`
	TimeoutS int              `json:"timeout_s"`
	Budget   int64            `json:"budget"`
	Validate int              `json:"validate"` // paths whose model is re-run natively
	// CrossEvery: one solver query in this many is re-asked of the second solver
	// (0 = the default of 40; negative = off).
	CrossEvery int `json:"cross_every"`
	// Skip: the harness is not part of this tier
	Skip bool `json:"skip"`
}

type harnessCfg struct {
	// Only violations whose assertion id starts with one of these prefixes
	// belong to this property (the harness is shared with another property).
	AssertPrefix []string `json:"assert_prefix"`
	Name         string   `json:"name"`
	Pkg          string   `json:"pkg"`
	Quick        tierCfg  `json:"quick"`
	Thorough     tierCfg  `json:"thorough"`
	Note         string   `json:"note"`
	// Shared: the harness belongs to another property and is run here with a
	// subset of its parameter sets; the markers and assertions of its other
	// parameter sets are not expected to be hit (vacuity is judged where it is owned).
	Shared bool `json:"shared"`
	// OrderDependent: the harness quantifies over Go's map iteration order, which a
	// native run cannot steer; a candidate is confirmed when any of several native
	// runs fails (in whatever way the order at hand produces).
	OrderDependent bool `json:"order_dependent"`
	// Race: candidates of this harness are lock-discipline violations that need not
	// change any result; they are confirmed by running the native replay under
	// `go test -race` and seeing the race detector report a data race.
	Race bool `json:"race"`
}

type propCfg struct {
	Harnesses   []harnessCfg `json:"harnesses"`
	Bounds      string       `json:"bounds"`
	Outside     string       `json:"outside"`
	Assumptions []string     `json:"assumptions"`
}

func loadChecks() (map[string]propCfg, error) {
	b, err := os.ReadFile(filepath.Join(verifDir, "checks.json"))
	if err != nil {
		return nil, err
	}
	var m map[string]propCfg
	if err := json.Unmarshal(b, &m); err != nil {
		return nil, fmt.Errorf("checks.json: %v", err)
	}
	return m, nil
}

type knownFinding struct {
	Status   string            `json:"status"` // known | fixed
	Property string            `json:"property"`
	Harness  string            `json:"harness"`
	Kind     string            `json:"kind"`
	ID       string            `json:"id"`
	Tags     map[string]string `json:"tags"`
	What     string            `json:"what"`
	Commit   string            `json:"commit,omitempty"`
}

func loadKnown() []knownFinding {
	b, err := os.ReadFile(filepath.Join(verifDir, "known_findings.json"))
	if err != nil {
		return nil
	}
	var l []knownFinding
	if err := json.Unmarshal(b, &l); err != nil {
		fmt.Fprintln(os.Stderr, "known_findings.json:", err)
	}
	return l
}

func (k knownFinding) matches(prop string, v *interp.Violation) bool {
	if k.Status != "known" || k.Property != prop {
		return false
	}
	if k.Harness != "" && k.Harness != v.Harness {
		return false
	}
	if k.Kind != "" && k.Kind != v.Kind {
		return false
	}
	if k.ID != "" && !globMatch(k.ID, v.ID) {
		return false
	}
	for tk, tv := range k.Tags {
		if !globMatch(tv, v.Tags[tk]) {
			return false
		}
	}
	return true
}

func globMatch(pat, s string) bool {
	if strings.HasPrefix(pat, "re:") {
		re, err := regexp.Compile(strings.TrimPrefix(pat, "re:"))
		return err == nil && re.MatchString(s)
	}
	if strings.HasSuffix(pat, "*") {
		return strings.HasPrefix(s, strings.TrimSuffix(pat, "*"))
	}
	return pat == s
}

// ---------------------------------------------------------------- exploration

type exploreStats struct {
	Harness                                     string
	Params                                      map[string]int
	Paths                                       int
	Status                                      map[string]int
	Forks                                       int
	Queries                                     int
	QSat, QUnsat, QUnknown, QSimplified, QCross int
	SolverMs                                    float64
	Instrs                                      int64
	Funcs                                       map[string]bool
	Stubs                                       map[string]bool
	Reach                                       map[string]bool
	Asserts                                     map[string]int
	Inconclusive                                map[string]int
	Violations                                  []interp.Violation
	Samples                                     []map[string]interface{}
	Models                                      []modelCase
	Exhaustive                                  bool
	WallS                                       float64
	MaxInputs                                   int
	StaticAsserts, StaticReach                  []string
	EngineErrors                                []string
	ForkSites                                   map[string]int
}

type modelCase struct {
	Inputs   map[string]uint64
	Choices  []int
	Observed []string
}

func explore(p *pool, h harnessCfg, tc tierCfg, params map[string]int, seed int64, deadline time.Time) *exploreStats {
	st := &exploreStats{Harness: h.Name, Params: params, Status: map[string]int{}, Funcs: map[string]bool{}, Stubs: map[string]bool{},
		Reach: map[string]bool{}, Asserts: map[string]int{}, Inconclusive: map[string]int{}, Exhaustive: true}
	start := time.Now()
	maxPaths := tc.MaxPaths
	if maxPaths == 0 {
		maxPaths = 200000
	}
	validate := tc.Validate
	if validate == 0 {
		validate = 8
	}

	var static struct {
		Asserts []string `json:"asserts"`
		Reach   []string `json:"reach"`
		Known   bool     `json:"known"`
	}
	if err := p.ws[0].do(workerReq{Op: "static", Job: interp.Job{Harness: h.Name}}, &static); err != nil {
		st.EngineErrors = append(st.EngineErrors, err.Error())
		st.Exhaustive = false
		return st
	}
	if !static.Known {
		st.EngineErrors = append(st.EngineErrors, "harness not found in the loaded program: "+h.Name)
		st.Exhaustive = false
		return st
	}
	st.StaticAsserts, st.StaticReach = static.Asserts, static.Reach

	type result struct {
		res interp.PathResult
		err error
		w   *worker
	}
	frontier := [][]int64{{}}
	idle := append([]*worker(nil), p.ws...)
	results := make(chan result, len(p.ws))
	inflight := 0
	dispatched := 0
	crossEvery := tc.CrossEvery
	if crossEvery == 0 {
		crossEvery = 40
	}
	if v, ok := params["cross_every"]; ok {
		crossEvery = v
	}
	if crossEvery < 0 {
		crossEvery = 0
	}
	for len(frontier) > 0 || inflight > 0 {
		for len(frontier) > 0 && len(idle) > 0 {
			if dispatched >= maxPaths || time.Now().After(deadline) {
				st.Exhaustive = false
				frontier = nil
				break
			}
			prefix := frontier[len(frontier)-1]
			frontier = frontier[:len(frontier)-1]
			w := idle[len(idle)-1]
			idle = idle[:len(idle)-1]
			job := interp.Job{Harness: h.Name, Prefix: prefix, Params: params, Budget: tc.Budget, Seed: seed,
				CrossEvery: crossEvery, WantModel: dispatched < validate*4}
			dispatched++
			inflight++
			go func(w *worker, job interp.Job) {
				var r result
				r.w = w
				r.err = w.do(workerReq{Op: "run", Job: job}, &r.res)
				results <- r
			}(w, job)
		}
		if inflight == 0 {
			break
		}
		r := <-results
		inflight--
		if r.err != nil {
			st.EngineErrors = append(st.EngineErrors, r.err.Error())
			st.Exhaustive = false
			// replace the dead worker
			r.w.stop()
			if nw, err := startWorker(r.w.id); err == nil {
				for i, w := range p.ws {
					if w == r.w {
						p.ws[i] = nw
					}
				}
				idle = append(idle, nw)
			}
			continue
		}
		idle = append(idle, r.w)
		res := r.res
		st.Paths++
		st.Status[res.Status]++
		st.Forks += res.Forks
		st.Queries += res.Queries
		st.QSat += res.QSat
		st.QUnsat += res.QUnsat
		st.QUnknown += res.QUnknown
		st.QSimplified += res.QSimplified
		st.QCross += res.QCross
		st.SolverMs += res.SolverMs
		st.Instrs += res.Instrs
		if res.NInputs > st.MaxInputs {
			st.MaxInputs = res.NInputs
		}
		for _, f := range res.Funcs {
			st.Funcs[f] = true
		}
		for _, f := range res.Stubs {
			st.Stubs[f] = true
		}
		for _, f := range res.Reach {
			st.Reach[f] = true
		}
		for k, n := range res.Asserts {
			st.Asserts[k] += n
		}
		for _, m := range res.Inconclusive {
			st.Inconclusive[m]++
		}
		for k, n := range res.ForkSites {
			if st.ForkSites == nil {
				st.ForkSites = map[string]int{}
			}
			st.ForkSites[k] += n
		}
		switch res.Status {
		case "engine-error", "harness-error":
			st.EngineErrors = append(st.EngineErrors, res.Status+": "+res.Detail)
			st.Exhaustive = false
		case "unsupported":
			st.Inconclusive["unsupported: "+res.Detail]++
		}
		st.Violations = append(st.Violations, res.Violations...)
		frontier = append(frontier, res.Siblings...)
		if len(st.Samples) < 3 && res.Status == "ok" {
			st.Samples = append(st.Samples, map[string]interface{}{
				"harness": h.Name, "params": params, "decisions": trimDec(res.Decisions), "choices": res.Choices,
				"model_inputs": trimInputs(res.SampleInputs), "instrs": res.Instrs, "queries": res.Queries,
			})
		}
		if res.SampleInputs != nil && res.Status == "ok" && len(st.Models) < validate {
			st.Models = append(st.Models, modelCase{Inputs: res.SampleInputs, Choices: res.Choices})
		}
	}
	if len(st.Inconclusive) > 0 {
		// unknown / unsupported / cap-exceeded anywhere means the bound was not fully decided
		st.Exhaustive = false
	}
	st.WallS = time.Since(start).Seconds()
	return st
}

func trimDec(d []int64) []int64 {
	if len(d) > 40 {
		return d[:40]
	}
	return d
}

func trimInputs(m map[string]uint64) map[string]uint64 {
	if len(m) <= 24 {
		return m
	}
	keys := make([]string, 0, len(m))
	for k := range m {
		keys = append(keys, k)
	}
	sort.Strings(keys)
	out := map[string]uint64{}
	for _, k := range keys[:24] {
		out[k] = m[k]
	}
	return out
}

// ---------------------------------------------------------------- native replay

type nativeCase struct {
	Harness string            `json:"harness"`
	Inputs  map[string]uint64 `json:"inputs"`
	Choices []int             `json:"choices"`
	Params  map[string]int    `json:"params"`
}

type nativeOutcome struct {
	Harness  string   `json:"harness"`
	Status   string   `json:"status"`
	ID       string   `json:"id"`
	Detail   string   `json:"detail"`
	Observed []string `json:"observed"`
	Site     string   `json:"site"`
	Failed   []string `json:"failed"`
}

// runNative runs cases through `go test` on the real build of pkg (harness dir name).
var nativeRace bool

func runNative(ov *overlaySet, pkg string, cases []nativeCase, timeout time.Duration) ([]nativeOutcome, string, error) {
	tmp, err := os.MkdirTemp("", "verif-native")
	if err != nil {
		return nil, "", err
	}
	defer os.RemoveAll(tmp)
	cf := filepath.Join(tmp, "cases.json")
	of := filepath.Join(tmp, "out.txt")
	js, _ := json.Marshal(cases)
	os.WriteFile(cf, js, 0644)
	args := []string{"test", "-tags", "verif", "-vet=off", "-count=1", "-overlay", filepath.Join(ov.tmp, "overlay.json"),
		"-run", "TestVerifReplay$", "-timeout", fmt.Sprintf("%ds", int(timeout.Seconds()))}
	if nativeRace {
		args = append(args, "-race")
	}
	cmd := exec.Command("go", append(args, "./"+pkgDirs[pkg])...)
	cmd.Dir = repoDir
	cmd.Env = append(os.Environ(), "GOFLAGS=-mod=mod", "GOPROXY=off", "GOSUMDB=off", "GOTOOLCHAIN=local",
		"VERIF_REPLAY="+cf, "VERIF_OUT="+of)
	outb, runErr := cmd.CombinedOutput()
	var outs []nativeOutcome
	if b, err := os.ReadFile(of); err == nil {
		for _, line := range strings.Split(string(b), "\n") {
			if !strings.HasPrefix(line, "VERIF-CASE ") {
				continue
			}
			var o nativeOutcome
			if json.Unmarshal([]byte(strings.TrimPrefix(line, "VERIF-CASE ")), &o) == nil {
				outs = append(outs, o)
			}
		}
	}
	return outs, string(outb), runErr
}

func raceHarness(cfgs map[string]propCfg, name string) bool {
	for _, p := range cfgs {
		for _, h := range p.Harnesses {
			if h.Name == name && h.Race {
				return true
			}
		}
	}
	return false
}

// confirmRace replays the candidate natively under the race detector.
func confirmRace(ov *overlaySet, pkg string, v *interp.Violation, params map[string]int) (bool, string) {
	nativeRace = true
	defer func() { nativeRace = false }()
	c := nativeCase{Harness: v.Harness, Inputs: v.Inputs, Choices: v.Choices, Params: params}
	for try := 0; try < 2; try++ {
		outs, raw, _ := runNative(ov, pkg, []nativeCase{c, c}, 180*time.Second)
		if strings.Contains(raw, "WARNING: DATA RACE") {
			return true, "go test -race reports a data race on the native replay: " + raceSummary(raw)
		}
		for _, o := range outs {
			if o.Status == "assert" {
				for _, f := range o.Failed {
					if f == v.ID {
						return true, "native run fails assertion " + f
					}
				}
			}
		}
	}
	return false, "no data race reported natively"
}

func raceSummary(raw string) string {
	var fns []string
	for _, l := range strings.Split(raw, "\n") {
		l = strings.TrimSpace(l)
		if strings.HasPrefix(l, "github.com/mk6i/mkdb/") && strings.HasSuffix(l, ")") && len(fns) < 4 {
			fns = append(fns, l)
		}
	}
	return strings.Join(fns, " | ")
}

var prefixSetupID = map[string]bool{"create-db": true, "init-storage": true, "prefix-flush": true, "prefix-statement-ok": true}

func sharedHarness(cfgs map[string]propCfg, prop, name string) bool {
	for _, h := range cfgs[prop].Harnesses {
		if h.Name == name && h.Shared {
			return true
		}
	}
	return false
}

func orderDependent(cfgs map[string]propCfg, name string) bool {
	for _, p := range cfgs {
		for _, h := range p.Harnesses {
			if h.Name == name && h.OrderDependent {
				return true
			}
		}
	}
	return false
}

func pkgOfHarness(cfgs map[string]propCfg, name string) string {
	for _, p := range cfgs {
		for _, h := range p.Harnesses {
			if h.Name == name {
				return h.Pkg
			}
		}
	}
	return ""
}

// confirm replays a candidate natively; it reports whether the real build fails the same way.
func confirmRetry(ov *overlaySet, pkg string, v *interp.Violation, params map[string]int, tries int) (bool, string) {
	last := ""
	for i := 0; i < tries; i++ {
		c := nativeCase{Harness: v.Harness, Inputs: v.Inputs, Choices: v.Choices, Params: params}
		var cases []nativeCase
		for k := 0; k < 8; k++ {
			cases = append(cases, c)
		}
		outs, raw, _ := runNative(ov, pkg, cases, 120*time.Second)
		if len(outs) < len(cases) && (strings.Contains(raw, "fatal error:") || strings.Contains(raw, "panic:") || strings.Contains(raw, "test timed out")) {
			return true, "a native run crashed or hung: " + lastLines(raw, 4)
		}
		for _, o := range outs {
			if o.Status == "assert" || o.Status == "panic" {
				return true, fmt.Sprintf("a native run (map order as it fell) fails: %s %s %s %s", o.Status, o.ID, o.Detail, o.Site)
			}
			last = o.Status
		}
	}
	return false, "no native run failed in " + fmt.Sprint(tries*8) + " tries (last outcome " + last + ")"
}

func confirm(ov *overlaySet, pkg string, v *interp.Violation, params map[string]int) (bool, string) {
	c := nativeCase{Harness: v.Harness, Inputs: v.Inputs, Choices: v.Choices, Params: params}
	timeout := 60 * time.Second
	outs, raw, err := runNative(ov, pkg, []nativeCase{c}, timeout)
	if len(outs) == 0 {
		if v.Kind == "budget" || v.Kind == "deadlock" {
			if strings.Contains(raw, "test timed out") || strings.Contains(raw, "all goroutines are asleep") || strings.Contains(raw, "stack overflow") {
				return true, "native run hangs: " + lastLines(raw, 3)
			}
		}
		if strings.Contains(raw, "fatal error:") || strings.Contains(raw, "panic:") {
			// crashed outside the harness's recover (e.g. in another goroutine)
			return v.Kind == "panic" || v.Kind == "deadlock", "native run crashed: " + lastLines(raw, 6)
		}
		return false, fmt.Sprintf("native replay produced no outcome (err=%v): %s", err, lastLines(raw, 6))
	}
	o := outs[0]
	switch v.Kind {
	case "assert":
		if o.Status == "assert" {
			for _, f := range o.Failed {
				if f == v.ID {
					return true, "native run fails assertion " + f
				}
			}
			if o.ID == v.ID {
				return true, "native run fails assertion " + o.ID
			}
		}
	case "panic":
		if o.Status == "panic" {
			return true, "native run panics: " + o.Detail + " in " + o.Site
		}
	case "budget", "deadlock":
		if o.Status == "panic" && strings.Contains(o.Detail, "deadlock") {
			return true, "native run deadlocks"
		}
	}
	return false, fmt.Sprintf("native outcome %s/%s %s", o.Status, o.ID, o.Detail)
}

func lastLines(s string, n int) string {
	l := strings.Split(strings.TrimSpace(s), "\n")
	if len(l) > n {
		l = l[len(l)-n:]
	}
	return strings.Join(l, " | ")
}

// ---------------------------------------------------------------- check driver

type evidence struct {
	PropertyID  string                 `json:"property_id"`
	Tier        string                 `json:"tier"`
	Seed        int64                  `json:"seed"`
	Level       string                 `json:"level"`
	Coverage    map[string]interface{} `json:"coverage"`
	Assumptions []string               `json:"assumptions"`
	WallS       float64                `json:"wall_s"`
	Violations  int                    `json:"violations"`
}

func checkMain(prop, tier string) int {
	start := time.Now()
	if tier != "quick" && tier != "thorough" {
		usage()
	}
	if t := os.Getenv("VERIF_TIER"); t == "quick" || t == "thorough" {
		tier = t
	}
	seed, _ := strconv.ParseInt(os.Getenv("VERIF_SEED"), 10, 64)
	cfgs, err := loadChecks()
	if err != nil {
		fmt.Fprintln(os.Stderr, err)
		return 2
	}
	pc, ok := cfgs[prop]
	if !ok {
		fmt.Fprintln(os.Stderr, "no such property in checks.json:", prop)
		return 2
	}
	droppedFiles := excludeBrokenHarnessFiles()
	sort.Strings(droppedFiles)
	for _, f := range droppedFiles {
		fmt.Printf("INCONCLUSIVE property=%s harness file %s does not compile against this tree (an internal signature it uses has changed): its harnesses are not decided\n", prop, f)
	}
	ov, err := buildOverlay()
	if err != nil {
		fmt.Fprintln(os.Stderr, err)
		return 2
	}
	defer ov.cleanup()

	nw := 16
	if v, err := strconv.Atoi(os.Getenv("VERIF_WORKERS")); err == nil && v > 0 {
		nw = v
	}
	pl, err := startPool(nw)
	if err != nil {
		// the tree does not load (e.g. does not compile): nothing can be decided
		fmt.Printf("INCONCLUSIVE property=%s engine could not load the program: %v\n", prop, err)
		writeEvidence(prop, tier, seed, nil, pc, nil, 0, time.Since(start).Seconds(), []string{"load error: " + err.Error()})
		return 0
	}
	defer pl.stop()

	// the symbolic operators against Go's own arithmetic, in this process, on every run
	selfCh := make(chan interp.SelfTestResult, 1)
	go func() { selfCh <- interp.SelfTest(seed) }()

	known := loadKnown()
	var all []*exploreStats
	for _, h := range pc.Harnesses {
		tc := h.Quick
		if tier == "thorough" {
			tc = h.Thorough
			if len(tc.Configs) == 0 {
				tc = h.Quick
			}
		}
		if tc.Skip {
			continue
		}
		cfgsList := tc.Configs
		if len(cfgsList) == 0 {
			cfgsList = []map[string]int{{}}
		}
		to := tc.TimeoutS
		if to == 0 {
			to = 120
		}
		deadline := time.Now().Add(time.Duration(to) * time.Second)
		for _, params := range cfgsList {
			st := explore(pl, h, tc, params, seed, deadline)
			if len(h.AssertPrefix) > 0 {
				var keep []interp.Violation
				for _, v := range st.Violations {
					own := v.Kind != "assert"
					for _, pre := range h.AssertPrefix {
						own = own || strings.HasPrefix(v.ID, pre)
					}
					if own {
						keep = append(keep, v)
					}
				}
				st.Violations = keep
			}
			all = append(all, st)
			fmt.Printf("explored harness=%s params=%v paths=%d status=%v forks=%d queries=%d (sat %d unsat %d unknown %d) simplified=%d solver=%.1fs wall=%.1fs exhaustive=%v\n",
				st.Harness, params, st.Paths, st.Status, st.Forks, st.Queries, st.QSat, st.QUnsat, st.QUnknown, st.QSimplified, st.SolverMs/1000, st.WallS, st.Exhaustive)
			for m, n := range st.Inconclusive {
				fmt.Printf("INCONCLUSIVE property=%s harness=%s x%d: %s\n", prop, st.Harness, n, m)
			}
			for _, e := range uniq(st.EngineErrors, 5) {
				fmt.Printf("ENGINE-ERROR property=%s harness=%s: %s\n", prop, st.Harness, e)
			}
		}
	}

	// vacuity
	var vacuous []string
	byHarness := map[string][]*exploreStats{}
	for _, st := range all {
		byHarness[st.Harness] = append(byHarness[st.Harness], st)
	}
	for hn, sts := range byHarness {
		reach, asserts := map[string]bool{}, map[string]int{}
		for _, st := range sts {
			for k := range st.Reach {
				reach[k] = true
			}
			for k, n := range st.Asserts {
				asserts[k] += n
			}
		}
		if sharedHarness(cfgs, prop, hn) {
			if !reach["end"] {
				vacuous = append(vacuous, hn+": reach marker never hit: end")
			}
			continue
		}
		for _, id := range sts[0].StaticReach {
			if !reach[id] {
				vacuous = append(vacuous, hn+": reach marker never hit: "+id)
			}
		}
		for _, id := range sts[0].StaticAsserts {
			if prefixSetupID[id] {
				// evaluated only by the first harness of a worker that builds a prefix image; later ones load the cached image
				continue
			}
			if asserts[id] == 0 {
				vacuous = append(vacuous, hn+": assertion never evaluated: "+id)
			}
		}
	}
	sort.Strings(vacuous)
	for _, v := range vacuous {
		fmt.Printf("HARNESS-VACUOUS property=%s %s\n", prop, v)
	}

	// differential validation of sampled models (engine concrete vs native)
	validated, mismatches := validateModels(pl, ov, cfgs, all)
	for _, m := range mismatches {
		fmt.Printf("TRANSLATOR-MISMATCH property=%s %s\n", prop, m)
	}

	// violations: group, confirm natively, classify
	exit := 0
	replayDir := envOr("VERIF_REPLAY_DIR", filepath.Join(verifDir, "replays"))
	os.MkdirAll(replayDir, 0755)
	type group struct {
		key string
		vs  []*interp.Violation
		prm map[string]int
	}
	groups := map[string]*group{}
	var order []string
	for _, st := range all {
		for i := range st.Violations {
			v := &st.Violations[i]
			k := v.Harness + "|" + v.Kind + "|" + v.ID + "|" + tagString(v.Tags)
			g := groups[k]
			if g == nil {
				g = &group{key: k, prm: st.Params}
				groups[k] = g
				order = append(order, k)
			}
			if len(g.vs) < 4 {
				g.vs = append(g.vs, v)
			}
		}
	}
	nViol := 0
	knownPrinted := map[string]bool{}
	var knownSeen, unconfirmed, violationsOut []string
	for n, k := range order {
		g := groups[k]
		var kf *knownFinding
		for i := range known {
			if known[i].matches(prop, g.vs[0]) {
				kf = &known[i]
				break
			}
		}
		confirmed, how := false, ""
		var cv *interp.Violation
		for _, v := range g.vs {
			if !v.ModelOK && len(v.Inputs) == 0 && v.Kind == "assert" {
				continue
			}
			var ok bool
			var msg string
			if orderDependent(cfgs, v.Harness) {
				ok, msg = confirmRetry(ov, pkgOfHarness(cfgs, v.Harness), v, g.prm, 3)
			} else if raceHarness(cfgs, v.Harness) && v.Kind == "assert" && strings.Contains(v.ID, "lock") {
				ok, msg = confirm(ov, pkgOfHarness(cfgs, v.Harness), v, g.prm)
				if !ok {
					ok, msg = confirmRace(ov, pkgOfHarness(cfgs, v.Harness), v, g.prm)
				}
			} else {
				ok, msg = confirm(ov, pkgOfHarness(cfgs, v.Harness), v, g.prm)
			}
			how = msg
			if ok {
				confirmed, cv = true, v
				break
			}
		}
		if !confirmed {
			line := fmt.Sprintf("UNCONFIRMED property=%s harness=%s kind=%s id=%s tags=%s: %s", prop, g.vs[0].Harness, g.vs[0].Kind, g.vs[0].ID, tagString(g.vs[0].Tags), how)
			fmt.Println(line)
			unconfirmed = append(unconfirmed, line)
			continue
		}
		if kf != nil {
			if !knownPrinted[kf.What] {
				knownPrinted[kf.What] = true
				fmt.Printf("KNOWN-FINDING: property=%s %s [first seen: harness=%s id=%s tags=%s; %s]\n", prop, kf.What, cv.Harness, cv.ID, tagString(cv.Tags), how)
			}
			knownSeen = append(knownSeen, fmt.Sprintf("%s | harness=%s kind=%s id=%s tags=%s | %s", kf.What, cv.Harness, cv.Kind, cv.ID, tagString(cv.Tags), how))
			continue
		}
		nViol++
		rp := filepath.Join(replayDir, fmt.Sprintf("%s-%d.json", prop, n))
		js, _ := json.MarshalIndent(map[string]interface{}{
			"property": prop, "harness": cv.Harness, "pkg": pkgOfHarness(cfgs, cv.Harness), "kind": cv.Kind, "id": cv.ID, "detail": cv.Detail,
			"inputs": cv.Inputs, "choices": cv.Choices, "params": g.prm, "tags": cv.Tags, "native": how,
		}, "", " ")
		os.WriteFile(rp, js, 0644)
		fmt.Printf("VIOLATION property=%s replay=%s\n", prop, rp)
		fmt.Printf("  harness=%s kind=%s id=%s tags=%s\n  %s\n  %s\n", cv.Harness, cv.Kind, cv.ID, tagString(cv.Tags), cv.Detail, how)
		violationsOut = append(violationsOut, fmt.Sprintf("%s %s %s %s", cv.Harness, cv.Kind, cv.ID, tagString(cv.Tags)))
		exit = 1
	}

	self := <-selfCh
	for _, f := range self.Failures {
		fmt.Printf("ENGINE-ERROR property=%s operator self-test: %s\n", prop, f)
	}
	extra := map[string]interface{}{
		"known_findings_seen": knownSeen, "unconfirmed": unconfirmed, "violations_reported": violationsOut,
		"vacuity": vacuous, "traces_validated": validated, "translator_mismatches": mismatches,
		"operator_selftest": map[string]interface{}{"cases": self.Cases, "solver_queries": self.Queries, "failures": self.Failures,
			"what": "every integer binary/unary operator, shift and conversion of the symbolic interpreter and the float kernel of AVG on boundary and random operands: term evaluator and solver against Go's own result"},
	}
	writeEvidence(prop, tier, seed, all, pc, extra, nViol, time.Since(start).Seconds(), nil)
	if len(self.Failures) > 0 && exit == 0 {
		// the encoding of an operator is wrong: nothing decided above can be believed
		return 2
	}
	return exit
}

func uniq(l []string, max int) []string {
	seen := map[string]bool{}
	var out []string
	for _, s := range l {
		if !seen[s] {
			seen[s] = true
			out = append(out, s)
			if len(out) >= max {
				break
			}
		}
	}
	return out
}

func tagString(t map[string]string) string {
	keys := make([]string, 0, len(t))
	for k := range t {
		keys = append(keys, k)
	}
	sort.Strings(keys)
	var sb strings.Builder
	for i, k := range keys {
		if i > 0 {
			sb.WriteByte(',')
		}
		sb.WriteString(k + "=" + t[k])
	}
	return sb.String()
}

// validateModels re-runs sampled solver models concretely in the engine and
// natively on the real build and compares the verifObserve logs and outcomes.
func validateModels(pl *pool, ov *overlaySet, cfgs map[string]propCfg, all []*exploreStats) (int, []string) {
	validated := 0
	var mismatches []string
	type item struct {
		st *exploreStats
		m  modelCase
	}
	byPkg := map[string][]item{}
	for _, st := range all {
		if orderDependent(cfgs, st.Harness) {
			continue // a native run cannot be steered onto the explored map order
		}
		for _, m := range st.Models {
			pkg := pkgOfHarness(cfgs, st.Harness)
			byPkg[pkg] = append(byPkg[pkg], item{st, m})
		}
	}
	for pkg, items := range byPkg {
		var cases []nativeCase
		for _, it := range items {
			cases = append(cases, nativeCase{Harness: it.st.Harness, Inputs: it.m.Inputs, Choices: it.m.Choices, Params: it.st.Params})
		}
		outs, raw, _ := runNative(ov, pkg, cases, 120*time.Second)
		if len(outs) != len(cases) {
			mismatches = append(mismatches, fmt.Sprintf("pkg %s: native validation run produced %d of %d outcomes: %s", pkg, len(outs), len(cases), lastLines(raw, 4)))
			continue
		}
		for i, it := range items {
			var res interp.PathResult
			job := interp.Job{Harness: it.st.Harness, Params: it.st.Params, Concrete: true, Inputs: it.m.Inputs, Choices: it.m.Choices}
			if err := pl.ws[0].do(workerReq{Op: "run", Job: job}, &res); err != nil {
				mismatches = append(mismatches, "engine concrete run failed: "+err.Error())
				continue
			}
			no := outs[i]
			if res.Status != no.Status && !(res.Status == "violation" && no.Status == "assert") {
				// keep the case: a model on which the real build and the encoding disagree
				dir := envOr("VERIF_REPLAY_DIR", filepath.Join(verifDir, "replays"))
				os.MkdirAll(dir, 0755)
				mf := filepath.Join(dir, fmt.Sprintf("mismatch-%s-%d.json", it.st.Harness, len(mismatches)))
				js, _ := json.MarshalIndent(map[string]interface{}{
					"property": "", "harness": it.st.Harness, "pkg": pkg, "kind": no.Status, "id": no.ID, "detail": no.Detail,
					"inputs": it.m.Inputs, "choices": it.m.Choices, "params": it.st.Params,
				}, "", " ")
				os.WriteFile(mf, js, 0644)
				mismatches = append(mismatches, fmt.Sprintf("%s: engine status %s (%s) vs native %s/%s %s [case: %s]", it.st.Harness, res.Status, res.Detail, no.Status, no.ID, no.Detail, mf))
				continue
			}
			if strings.Join(res.Observed, "\n") != strings.Join(no.Observed, "\n") {
				mismatches = append(mismatches, fmt.Sprintf("%s: observation logs differ: engine %v native %v", it.st.Harness, clip(res.Observed), clip(no.Observed)))
				continue
			}
			validated++
		}
	}
	return validated, mismatches
}

func clip(l []string) []string {
	if len(l) > 6 {
		return append(append([]string{}, l[:6]...), "…")
	}
	return l
}

func writeEvidence(prop, tier string, seed int64, all []*exploreStats, pc propCfg, extra map[string]interface{}, nViol int, wall float64, notes []string) {
	cov := map[string]interface{}{}
	states, transitions, queries, qsat, qunsat, qunk, qsimp, qcross := 0, 0, 0, 0, 0, 0, 0, 0
	var solverMs float64
	var instrs int64
	funcs, stubs := map[string]bool{}, map[string]bool{}
	var samples []map[string]interface{}
	exhaustive := len(all) > 0
	var inconclusive []string
	var bounds []map[string]interface{}
	maxInputs := 0
	statusAll := map[string]int{}
	for _, st := range all {
		states += st.Paths
		transitions += st.Forks
		queries += st.Queries
		qsat += st.QSat
		qunsat += st.QUnsat
		qunk += st.QUnknown
		qsimp += st.QSimplified
		qcross += st.QCross
		solverMs += st.SolverMs
		instrs += st.Instrs
		for f := range st.Funcs {
			funcs[f] = true
		}
		for f := range st.Stubs {
			stubs[f] = true
		}
		for k, n := range st.Status {
			statusAll[k] += n
		}
		if len(samples) < 6 {
			samples = append(samples, st.Samples...)
		}
		if !st.Exhaustive {
			exhaustive = false
		}
		for m, n := range st.Inconclusive {
			inconclusive = append(inconclusive, fmt.Sprintf("%s x%d: %s", st.Harness, n, m))
		}
		for _, e := range uniq(st.EngineErrors, 3) {
			inconclusive = append(inconclusive, st.Harness+": "+e)
		}
		bounds = append(bounds, map[string]interface{}{"harness": st.Harness, "params": st.Params, "paths": st.Paths, "exhaustive": st.Exhaustive, "wall_s": round1(st.WallS)})
		if st.MaxInputs > maxInputs {
			maxInputs = st.MaxInputs
		}
	}
	if len(samples) == 0 {
		samples = []map[string]interface{}{{"note": "no path completed"}}
	}
	if len(samples) > 6 {
		samples = samples[:6]
	}
	validated := 0
	if extra != nil {
		if v, ok := extra["traces_validated"].(int); ok {
			validated = v
		}
	}
	cov["states"] = states
	cov["transitions"] = transitions
	cov["traces_validated_against_impl"] = validated
	cov["samples"] = samples
	cov["exhaustive"] = exhaustive
	cov["evaluations"] = states
	cov["distinct_nontrivial"] = statusAll["ok"] + statusAll["violation"]
	cov["rule"] = "one evaluation = one symbolic path (a distinct vector of solver-decided branch outcomes, each standing for all inputs satisfying its path condition); non-trivial = the path ran the harness to its end marker or to a violated assertion (paths cut by an assumption are not counted)"
	cov["functions_encoded"] = keys(funcs)
	cov["stubs_hit"] = keys(stubs)
	cov["bounds"] = bounds
	cov["bounds_text"] = pc.Bounds
	cov["outside_bounds"] = pc.Outside
	cov["queries"] = map[string]int{"solver_calls": queries, "sat": qsat, "unsat": qunsat, "unknown": qunk, "closed_by_simplifier": qsimp, "cross_checked": qcross}
	cov["solver_time_s"] = round1(solverMs / 1000)
	cov["solvers"] = []string{"z3 4.8.12 (primary)", "cvc5 1.0.3 (floating point, cross-check)"}
	cov["ssa_instructions_interpreted"] = instrs
	cov["max_symbolic_inputs_per_path"] = maxInputs
	cov["path_status"] = statusAll
	cov["inconclusive"] = inconclusive
	cov["encoding"] = "go/ssa (x/tools v0.29.0) built from the working tree of " + repoDir + " on this run, executed by the gosym forking symbolic interpreter"
	for k, v := range extra {
		cov[k] = v
	}
	if len(notes) > 0 {
		cov["notes"] = notes
	}
	ev := evidence{PropertyID: prop, Tier: tier, Seed: seed, Level: "model_checking", Coverage: cov,
		Assumptions: append([]string{"harness preconditions (verifAssume) and intrinsics listed in stubs_hit are part of the claim", "bounded: only the shapes listed in bounds are covered"}, pc.Assumptions...),
		WallS:       round1(wall), Violations: nViol}
	evDir := envOr("VERIF_EVIDENCE_DIR", filepath.Join(verifDir, "evidence"))
	os.MkdirAll(evDir, 0755)
	js, _ := json.MarshalIndent(ev, "", " ")
	os.WriteFile(filepath.Join(evDir, prop+".json"), js, 0644)
}

func round1(f float64) float64 { return float64(int(f*10+0.5)) / 10 }

func keys(m map[string]bool) []string {
	out := make([]string, 0, len(m))
	for k := range m {
		out = append(out, k)
	}
	sort.Strings(out)
	return out
}

// ---------------------------------------------------------------- replay / dev

func replayMain(file string) int {
	b, err := os.ReadFile(file)
	if err != nil {
		fmt.Fprintln(os.Stderr, err)
		return 2
	}
	var r struct {
		Property string            `json:"property"`
		Harness  string            `json:"harness"`
		Pkg      string            `json:"pkg"`
		Kind     string            `json:"kind"`
		ID       string            `json:"id"`
		Inputs   map[string]uint64 `json:"inputs"`
		Choices  []int             `json:"choices"`
		Params   map[string]int    `json:"params"`
	}
	if err := json.Unmarshal(b, &r); err != nil {
		fmt.Fprintln(os.Stderr, err)
		return 2
	}
	ov, err := buildOverlay()
	if err != nil {
		fmt.Fprintln(os.Stderr, err)
		return 2
	}
	defer ov.cleanup()
	v := &interp.Violation{Harness: r.Harness, Kind: r.Kind, ID: r.ID, Inputs: r.Inputs, Choices: r.Choices}
	ok, how := confirm(ov, r.Pkg, v, r.Params)
	fmt.Printf("replay %s: reproduced=%v: %s\n", file, ok, how)
	if ok {
		return 1
	}
	return 0
}

func listMain() {
	cfgs, err := loadChecks()
	if err != nil {
		fmt.Fprintln(os.Stderr, err)
		os.Exit(2)
	}
	var ps []string
	for p := range cfgs {
		ps = append(ps, p)
	}
	sort.Strings(ps)
	for _, p := range ps {
		for _, h := range cfgs[p].Harnesses {
			fmt.Printf("%s %s (%s)\n", p, h.Name, h.Pkg)
		}
	}
}

// devHarness: verifcheck harness <name> [k=v ...]   — explore one harness, print a summary.
func devHarness(args []string) int {
	if len(args) == 0 {
		usage()
	}
	name := args[0]
	params := map[string]int{}
	nw := 8
	maxPaths := 0
	pkg := ""
	timeout := 600
	for _, a := range args[1:] {
		kv := strings.SplitN(a, "=", 2)
		if len(kv) != 2 {
			continue
		}
		if kv[0] == "pkg" {
			pkg = kv[1]
			continue
		}
		n, _ := strconv.Atoi(kv[1])
		switch kv[0] {
		case "workers":
			nw = n
		case "max_paths":
			maxPaths = n
		case "timeout":
			timeout = n
		default:
			params[kv[0]] = n
		}
	}
	ov, err := buildOverlay()
	if err != nil {
		fmt.Fprintln(os.Stderr, err)
		return 2
	}
	defer ov.cleanup()
	pl, err := startPool(nw)
	if err != nil {
		fmt.Fprintln(os.Stderr, err)
		return 2
	}
	defer pl.stop()
	h := harnessCfg{Name: name, Pkg: pkg}
	tc := tierCfg{MaxPaths: maxPaths}
	st := explore(pl, h, tc, params, 0, time.Now().Add(time.Duration(timeout)*time.Second))
	fmt.Printf("harness=%s params=%v paths=%d status=%v forks=%d queries=%d (sat %d unsat %d unknown %d) simplified=%d solver=%.2fs wall=%.2fs instrs=%d exhaustive=%v inputs<=%d\n",
		st.Harness, params, st.Paths, st.Status, st.Forks, st.Queries, st.QSat, st.QUnsat, st.QUnknown, st.QSimplified, st.SolverMs/1000, st.WallS, st.Instrs, st.Exhaustive, st.MaxInputs)
	fmt.Printf("reach=%v\nasserts=%v\nstatic asserts=%v reach=%v\n", keys(st.Reach), st.Asserts, st.StaticAsserts, st.StaticReach)
	for m, n := range st.Inconclusive {
		fmt.Printf("INCONCLUSIVE x%d: %s\n", n, m)
	}
	for _, e := range uniq(st.EngineErrors, 10) {
		fmt.Println("ENGINE-ERROR:", e)
	}
	seen := map[string]int{}
	for i := range st.Violations {
		v := &st.Violations[i]
		k := v.Kind + "|" + v.ID + "|" + tagString(v.Tags)
		seen[k]++
		if seen[k] == 1 {
			fmt.Printf("CANDIDATE kind=%s id=%s tags=%s detail=%s inputs=%v choices=%v\n", v.Kind, v.ID, tagString(v.Tags), v.Detail, trimInputs(v.Inputs), v.Choices)
			if pkg != "" {
				ok, how := confirm(ov, pkg, v, params)
				fmt.Printf("   native: reproduced=%v %s\n", ok, how)
			}
		}
	}
	for k, n := range seen {
		fmt.Printf("candidates %s x%d\n", k, n)
	}
	if os.Getenv("VERIF_FORKS") != "" {
		type kv struct {
			k string
			n int
		}
		var l []kv
		for k, n := range st.ForkSites {
			l = append(l, kv{k, n})
		}
		sort.Slice(l, func(i, j int) bool { return l[i].n > l[j].n })
		for i, e := range l {
			if i >= 15 {
				break
			}
			fmt.Printf("fork site x%d: %s\n", e.n, e.k)
		}
	}
	if os.Getenv("VERIF_FUNCS") != "" {
		fmt.Println("funcs:", keys(st.Funcs))
		fmt.Println("stubs:", keys(st.Stubs))
	}
	if pkg != "" && len(st.Models) > 0 {
		cfgs := map[string]propCfg{"dev": {Harnesses: []harnessCfg{h}}}
		n, mm := validateModels(pl, ov, cfgs, []*exploreStats{st})
		fmt.Printf("validated %d models natively, mismatches: %v\n", n, mm)
	}
	return 0
}
