package interp

// Loading the program under test (from the current source tree, with the
// harness overlay), package initialisation policy, and call interception.

import (
	"fmt"
	"go/token"
	"go/types"
	"os"
	"strings"

	"golang.org/x/tools/go/packages"
	"golang.org/x/tools/go/ssa"
	"golang.org/x/tools/go/ssa/ssautil"

	"gosym/smt"
)

type smtTerm = smt.Term

type nativeFn func(args []value) value

// std packages whose init is interpreted (pure Go, no unsafe/runtime dependence).
var initWhitelist = map[string]bool{
	"io": true, "strconv": true, "unicode": true, "unicode/utf8": true, "bytes": true,
	"strings": true, "sort": true, "container/list": true, "bufio": true, "encoding/csv": true,
	"math": true, "encoding/binary": true, "internal/oserror": true, "io/fs": true,
	"math/bits": true, "slices": true, "cmp": true, "internal/bytealg": false,
}

type LoadConfig struct {
	RepoDir  string
	ModPath  string
	Overlay  map[string][]byte
	Patterns []string
	Tags     string
}

func Load(cfg LoadConfig) (*World, error) {
	pc := &packages.Config{
		Mode:       packages.LoadAllSyntax,
		Dir:        cfg.RepoDir,
		Overlay:    cfg.Overlay,
		BuildFlags: []string{"-tags", cfg.Tags},
		Env:        append(os.Environ(), "GOFLAGS=-mod=mod", "GOPROXY=off", "GOSUMDB=off", "GOTOOLCHAIN=local"),
	}
	pkgs, err := packages.Load(pc, cfg.Patterns...)
	if err != nil {
		return nil, err
	}
	var errs []string
	packages.Visit(pkgs, nil, func(p *packages.Package) {
		for _, e := range p.Errors {
			errs = append(errs, e.Error())
		}
	})
	if len(errs) > 0 {
		return nil, fmt.Errorf("load errors:\n%s", strings.Join(errs, "\n"))
	}
	prog, _ := ssautil.AllPackages(pkgs, ssa.InstantiateGenerics|ssa.SanityCheckFunctions)
	prog.Build()

	i := &interpreter{
		prog:       prog,
		globals:    make(map[*ssa.Global]*value),
		sizes:      &types.StdSizes{WordSize: 8, MaxAlign: 8},
		goroutines: 1,
		initDone:   map[*ssa.Package]bool{},
		harnesses:  map[string]*ssa.Function{},
	}
	runtimePkg := prog.ImportedPackage("runtime")
	if runtimePkg == nil {
		return nil, fmt.Errorf("program does not include runtime")
	}
	i.runtimeErrorString = runtimePkg.Type("errorString").Object().Type()
	initReflect(i)

	w := &World{Prog: prog, interp: i, ModPath: cfg.ModPath}
	W = w
	for _, pkg := range prog.AllPackages() {
		mk := strings.HasPrefix(pkg.Pkg.Path(), cfg.ModPath)
		for _, m := range pkg.Members {
			switch v := m.(type) {
			case *ssa.Global:
				cell := zero(mustDeref(v.Type()))
				i.globals[v] = &cell
				if mk {
					i.mkdbGlobals = append(i.mkdbGlobals, v)
				}
			case *ssa.Function:
				if mk && strings.HasPrefix(v.Name(), "verifH_") {
					i.harnesses[strings.TrimPrefix(v.Name(), "verifH_")] = v
				}
			}
		}
	}
	return w, nil
}

func (w *World) Harnesses() []string {
	var out []string
	for k := range w.interp.harnesses {
		out = append(out, k)
	}
	return out
}

// StaticIDs returns the constant ids passed to verifAssert / verifReach by the
// harness function and the verif* helpers it (transitively) calls.
func (w *World) StaticIDs(harness string) (asserts, reach []string) {
	fn := w.interp.harnesses[harness]
	if fn == nil {
		return
	}
	seen := map[*ssa.Function]bool{}
	sa, sr := map[string]bool{}, map[string]bool{}
	var visit func(f *ssa.Function)
	visit = func(f *ssa.Function) {
		if seen[f] || f.Blocks == nil {
			return
		}
		seen[f] = true
		for _, af := range f.AnonFuncs {
			visit(af)
		}
		for _, b := range f.Blocks {
			for _, in := range b.Instrs {
				var cc *ssa.CallCommon
				switch in := in.(type) {
				case *ssa.Call:
					cc = &in.Call
				case *ssa.Defer:
					cc = &in.Call
				case *ssa.Go:
					cc = &in.Call
				}
				if cc == nil {
					continue
				}
				callee := cc.StaticCallee()
				if callee == nil {
					continue
				}
				switch callee.Name() {
				case "verifAssert", "verifCheck":
					if c, ok := cc.Args[1].(*ssa.Const); ok {
						sa[constString(c)] = true
					}
				case "verifReach":
					if c, ok := cc.Args[0].(*ssa.Const); ok {
						sr[constString(c)] = true
					}
				default:
					if strings.HasPrefix(callee.Name(), "verif") || (callee.Parent() != nil) {
						visit(callee)
					}
				}
			}
		}
	}
	visit(fn)
	for k := range sa {
		asserts = append(asserts, k)
	}
	for k := range sr {
		reach = append(reach, k)
	}
	return
}

func constString(c *ssa.Const) string {
	v := constValue(c)
	if s, ok := v.(string); ok {
		return s
	}
	return fmt.Sprint(v)
}

func (i *interpreter) lookupHarness(name string) *ssa.Function {
	return i.harnesses[name]
}

// resetGlobals re-zeroes the globals of the module under test (per path).
func (i *interpreter) resetGlobals() {
	for _, g := range i.mkdbGlobals {
		*i.globals[g] = zero(mustDeref(g.Type()))
	}
	i.installStdStreams()
}

// runInits interprets package initialisers: whitelisted std packages once per
// worker, the module's own packages on every path.
func (i *interpreter) runInits() {
	for _, pkg := range i.prog.AllPackages() {
		path := pkg.Pkg.Path()
		if initWhitelist[path] && !i.initDone[pkg] {
			i.initDone[pkg] = true
			if f := pkg.Func("init"); f != nil {
				call(i, nil, token.NoPos, f, nil)
			}
		}
	}
	for _, pkg := range i.prog.AllPackages() {
		if strings.HasPrefix(pkg.Pkg.Path(), W.ModPath) {
			if f := pkg.Func("init"); f != nil {
				call(i, nil, token.NoPos, f, nil)
			}
		}
	}
}

type interceptEntry struct {
	kind int // 0 none, 1 verif api, 2 external, 3 skipped init
	name string
	ext  externalFn
}

var interceptCache = map[*ssa.Function]*interceptEntry{}

func intercept(fr *frame, fn *ssa.Function, args []value) (value, bool) {
	e := interceptCache[fn]
	if e == nil {
		e = &interceptEntry{}
		full := fn.String()
		switch {
		case fn.Pkg != nil && strings.HasPrefix(fn.Pkg.Pkg.Path(), W.ModPath) && strings.HasPrefix(fn.Name(), "verif") && !strings.HasPrefix(fn.Name(), "verifH_") && isAPIName(fn.Name()):
			e.kind, e.name = 1, fn.Name()
		case externals[full] != nil:
			e.kind, e.name, e.ext = 2, full, externals[full]
		case strings.Contains(full, "[") && externals[stripTypeArgs(full)] != nil:
			// functions and methods of instantiated generics: one handler for every instantiation
			k := stripTypeArgs(full)
			e.kind, e.name, e.ext = 2, k, externals[k]
		case fn.Synthetic == "package initializer" && fn.Pkg != nil && !initWhitelist[fn.Pkg.Pkg.Path()] && !strings.HasPrefix(fn.Pkg.Pkg.Path(), W.ModPath):
			e.kind = 3
		}
		interceptCache[fn] = e
	}
	switch e.kind {
	case 1:
		if res, ok := callVerifAPI(fr, e.name, args); ok {
			return res, true
		}
		if res, ok := callVerifEnv(fr, e.name, args); ok {
			return res, true
		}
		return nil, false
	case 2:
		res := e.ext(fr, args)
		if _, ft := res.(fallThrough); ft {
			return nil, false
		}
		P.stubs[e.name] = true
		return res, true
	case 3:
		return nil, true
	}
	return nil, false
}

// stripTypeArgs removes every [...] group: "(*sync/atomic.Pointer[p.T]).Load[p.T]" -> "(*sync/atomic.Pointer).Load".
func stripTypeArgs(s string) string {
	var sb strings.Builder
	depth := 0
	for i := 0; i < len(s); i++ {
		switch s[i] {
		case '[':
			depth++
		case ']':
			depth--
		default:
			if depth == 0 {
				sb.WriteByte(s[i])
			}
		}
	}
	return sb.String()
}

var apiNames = map[string]bool{
	"verifBool": true, "verifU8": true, "verifU16": true, "verifU32": true, "verifU64": true,
	"verifI8": true, "verifI16": true, "verifI32": true, "verifI64": true, "verifInt": true,
	"verifBytes": true, "verifIntFrom": true, "verifString": true, "verifChoice": true, "verifAssume": true, "verifAssert": true,
	"verifReach": true, "verifTag": true, "verifObserve": true, "verifParam": true, "verifRegister": true,
	"verifSymbolic": true, "verifIsConcrete": true, "verifCheck": true, "verifFlushChecks": true, "verifAnd": true, "verifSelI64": true, "verifCount": true, "verifB2I": true, "verifSelU8": true, "verifOr": true,
	// environment
	"verifFSSnapshot": true, "verifFSRestore": true, "verifFSCutToSynced": true, "verifFSReset": true,
	"verifTick": true, "verifYield": true, "verifNumTickers": true, "verifLockHeld": true, "verifGoroutine": true, "verifWatchCalls": true,
	"verifMapOrderChoice": true, "verifConsoleIO": true, "verifFSFileLen": true, "verifFSMarkSynced": true, "verifFSCacheLoad": true, "verifFSCacheSave": true,
}

func isAPIName(n string) bool { return apiNames[n] }

func isTargetPanic(r interface{}) bool {
	switch r.(type) {
	case targetPanic, rtPanic:
		return true
	}
	return false
}

// notePanicSite remembers the innermost function of the module under test at
// the moment a panic starts (deferred calls run afterwards and would blur it).
func (p *path) notePanicSite() {
	if p == nil {
		return
	}
	if fr := p.lastMkdbFrame; fr != nil {
		p.panicAt = fr.fn.String()
	} else if p.curFn != nil {
		p.panicAt = p.curFn.String()
	}
}
