package interp

// Insertion-ordered map used for every Go map in the target program.
// Deterministic iteration (needed for re-execution), and keys may be symbolic:
// lookups then fork on key equality, so the solver enumerates equality
// patterns of keys rather than key values.

import (
	"fmt"
	"go/types"
)

type oentry struct {
	key  value
	val  value
	dead bool
}

type omap struct {
	keyType types.Type
	entries []*oentry
	idx     map[value]*oentry // concrete, natively hashable keys only
	nsym    int               // live entries whose key is not in idx
}

func makeMap(kt types.Type, reserve int64) value {
	return &omap{keyType: kt, idx: make(map[value]*oentry)}
}

// fastKey reports whether k can be used as a native Go map key with Go's own equality.
func fastKey(k value) bool {
	switch k.(type) {
	case bool, int, int8, int16, int32, int64, uint, uint8, uint16, uint32, uint64, uintptr, string, float64, float32, *value, chan value:
		return true
	}
	return false
}

func (m *omap) len() int {
	if m == nil {
		return 0
	}
	n := 0
	for _, e := range m.entries {
		if !e.dead {
			n++
		}
	}
	return n
}

// find returns the entry whose key equals k (forking on symbolic equalities).
func (m *omap) find(k value) *oentry {
	if m == nil {
		return nil
	}
	fast := fastKey(k)
	if fast {
		if e, ok := m.idx[k]; ok {
			return e
		}
		if m.nsym == 0 {
			return nil
		}
	}
	for _, e := range m.entries {
		if e.dead {
			continue
		}
		if fast && fastKey(e.key) {
			continue // already ruled out by idx
		}
		eq := equalsV(m.keyType, k, e.key)
		if P.truth(eq) {
			return e
		}
	}
	return nil
}

func (m *omap) lookup(k value) (value, bool) {
	if e := m.find(k); e != nil {
		return e.val, true
	}
	return nil, false
}

func (m *omap) insert(k, v value) {
	if m == nil {
		raise("assignment to entry in nil map")
	}
	if e := m.find(k); e != nil {
		e.val = v
		return
	}
	e := &oentry{key: k, val: v}
	m.entries = append(m.entries, e)
	if fastKey(k) {
		m.idx[k] = e
	} else {
		m.nsym++
	}
}

func (m *omap) delete(k value) {
	if m == nil {
		return
	}
	e := m.find(k)
	if e == nil {
		return
	}
	e.dead = true
	if fastKey(e.key) {
		delete(m.idx, e.key)
	} else {
		m.nsym--
	}
	// compact
	j := 0
	for _, x := range m.entries {
		if !x.dead {
			m.entries[j] = x
			j++
		}
	}
	for i := j; i < len(m.entries); i++ {
		m.entries[i] = nil
	}
	m.entries = m.entries[:j]
}

type omapIter struct {
	snap []*oentry
	i    int
}

func (it *omapIter) next() tuple {
	for it.i < len(it.snap) {
		e := it.snap[it.i]
		it.i++
		if e.dead {
			continue
		}
		return tuple{true, e.key, e.val}
	}
	return tuple{false, nil, nil}
}

func (m *omap) iter() iter {
	if m == nil {
		return &omapIter{}
	}
	snap := make([]*oentry, len(m.entries))
	copy(snap, m.entries)
	if P != nil && P.mapOrderChoice != nil && P.mapOrderChoice(P) {
		return &omapChoiceIter{rem: snap}
	}
	return &omapIter{snap: snap}
}

// omapChoiceIter yields the remaining entries in an order chosen by forking
// (all permutations are paths). Used where a property quantifies over Go's
// unspecified map iteration order.
type omapChoiceIter struct {
	rem []*oentry
}

func (it *omapChoiceIter) next() tuple {
	live := it.rem[:0:0]
	for _, e := range it.rem {
		if !e.dead {
			live = append(live, e)
		}
	}
	it.rem = live
	if len(live) == 0 {
		return tuple{false, nil, nil}
	}
	c := 0
	if len(live) > 1 {
		c = P.pureChoice(len(live))
	}
	e := live[c]
	it.rem = append(append([]*oentry{}, live[:c]...), live[c+1:]...)
	return tuple{true, e.key, e.val}
}

func (m *omap) String() string {
	return fmt.Sprintf("omap(%d)", m.len())
}
