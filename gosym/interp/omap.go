package interp

// Insertion-ordered map used for every Go map in the target program.
// Deterministic iteration (needed for re-execution), and keys may be symbolic:
// lookups then fork on key equality, so the solver enumerates equality
// patterns of keys rather than key values.

import (
	"fmt"
	"go/types"
)

type oentry struct {
	key  value
	val  value
	dead bool
}

type omap struct {
	valType types.Type
	keyType types.Type
	entries []*oentry
	idx     map[value]*oentry // concrete, natively hashable keys only
	nsym    int               // live entries whose key is not in idx
}

func makeMap(kt, vt types.Type, reserve int64) value {
	return &omap{keyType: kt, valType: vt, idx: make(map[value]*oentry)}
}

// fastKey reports whether k can be used as a native Go map key with Go's own equality.
func fastKey(k value) bool {
	switch k.(type) {
	case bool, int, int8, int16, int32, int64, uint, uint8, uint16, uint32, uint64, uintptr, string, float64, float32, *value, chan value:
		return true
	}
	return false
}

func (m *omap) len() int {
	if m == nil {
		return 0
	}
	n := 0
	for _, e := range m.entries {
		if !e.dead {
			n++
		}
	}
	return n
}

// find returns the entry whose key equals k (forking on symbolic equalities).
func (m *omap) find(k value) *oentry {
	if m == nil {
		return nil
	}
	fast := fastKey(k)
	if fast {
		if e, ok := m.idx[k]; ok {
			return e
		}
		if m.nsym == 0 {
			return nil
		}
	}
	for _, e := range m.entries {
		if e.dead {
			continue
		}
		if fast && fastKey(e.key) {
			continue // already ruled out by idx
		}
		eq := equalsV(m.keyType, k, e.key)
		if P.truth(eq) {
			return e
		}
	}
	return nil
}

func (m *omap) lookup(k value) (value, bool) {
	if e := m.find(k); e != nil {
		return e.val, true
	}
	return nil, false
}

func (m *omap) insert(k, v value) {
	if m == nil {
		raise("assignment to entry in nil map")
	}
	if e := m.find(k); e != nil {
		e.val = v
		return
	}
	e := &oentry{key: k, val: v}
	m.entries = append(m.entries, e)
	if fastKey(k) {
		m.idx[k] = e
	} else {
		m.nsym++
	}
}

func (m *omap) delete(k value) {
	if m == nil {
		return
	}
	e := m.find(k)
	if e == nil {
		return
	}
	e.dead = true
	if fastKey(e.key) {
		delete(m.idx, e.key)
	} else {
		m.nsym--
	}
	// compact
	j := 0
	for _, x := range m.entries {
		if !x.dead {
			m.entries[j] = x
			j++
		}
	}
	for i := j; i < len(m.entries); i++ {
		m.entries[i] = nil
	}
	m.entries = m.entries[:j]
}

type omapIter struct {
	snap []*oentry
	i    int
}

func (it *omapIter) next() tuple {
	for it.i < len(it.snap) {
		e := it.snap[it.i]
		it.i++
		if e.dead {
			continue
		}
		return tuple{true, e.key, e.val}
	}
	return tuple{false, nil, nil}
}

func (m *omap) iter() iter {
	if m == nil {
		return &omapIter{}
	}
	snap := make([]*oentry, len(m.entries))
	copy(snap, m.entries)
	if P != nil && P.mapOrderPred != nil && m.valType != nil {
		// entries selected by the harness predicate come last, in an order chosen
		// by forking; the others keep insertion order
		var fixed, free []*oentry
		for _, e := range snap {
			var arg value = e.val
			if _, isIface := m.valType.Underlying().(*types.Interface); !isIface {
				arg = iface{t: m.valType, v: e.val}
			}
			r := call(W.interp, nil, 0, P.mapOrderPred, []value{arg})
			if b, ok := r.(bool); ok && b {
				free = append(free, e)
			} else {
				fixed = append(fixed, e)
			}
		}
		if len(free) > 1 {
			return &omapChoiceIter{pre: fixed, rem: free, last: -1}
		}
	}
	return &omapIter{snap: snap}
}

// omapChoiceIter yields the remaining entries in an order chosen by forking
// (all permutations are paths). Used where a property quantifies over Go's
// unspecified map iteration order.
type omapChoiceIter struct {
	pre  []*oentry
	rem  []*oentry
	last int
	done map[int]bool
	tail bool
}

func (it *omapChoiceIter) next() tuple {
	for len(it.pre) > 0 {
		e := it.pre[0]
		it.pre = it.pre[1:]
		if !e.dead {
			return tuple{true, e.key, e.val}
		}
	}
	// The state an interrupted loop leaves behind depends on the SET of entries
	// visited, not on their order, so only increasing sequences are explored:
	// the next entry is any live one after the last one chosen (2^n sequences
	// instead of n! orders); when none is left after it, the skipped ones
	// follow in insertion order.
	if !it.tail {
		var cands []int
		for i := it.last + 1; i < len(it.rem); i++ {
			if !it.rem[i].dead && !it.done[i] {
				cands = append(cands, i)
			}
		}
		if len(cands) > 0 {
			c := 0
			if len(cands) > 1 {
				c = P.pureChoice(len(cands))
			}
			i := cands[c]
			it.last = i
			if it.done == nil {
				it.done = map[int]bool{}
			}
			it.done[i] = true
			return tuple{true, it.rem[i].key, it.rem[i].val}
		}
		it.tail = true
	}
	for i := 0; i < len(it.rem); i++ {
		if !it.rem[i].dead && !it.done[i] {
			if it.done == nil {
				it.done = map[int]bool{}
			}
			it.done[i] = true
			return tuple{true, it.rem[i].key, it.rem[i].val}
		}
	}
	return tuple{false, nil, nil}
}

func (m *omap) String() string {
	return fmt.Sprintf("omap(%d)", m.len())
}
