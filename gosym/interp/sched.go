package interp

// Deterministic cooperative scheduler: interpreted goroutines are real
// goroutines of which exactly one runs at a time; control changes hands only
// at blocking operations and explicit yields, so a decision vector replays
// exactly. Channels, select, sync.(RW)Mutex and time.Ticker are modelled here.

import (
	"fmt"
	"go/token"
	"go/types"
	"sync"

	"golang.org/x/tools/go/ssa"
)

type gor struct {
	id        int
	wake      chan struct{}
	done      bool
	blocked   bool
	quiescing bool
	isMain    bool
	desc      string
}

type gokill struct{}

type scheduler struct {
	gs       []*gor
	cur      *gor
	killed   bool
	deadlock bool
	pending  interface{} // panic forwarded from a background goroutine to main
	wg       sync.WaitGroup
	mutexes  map[*value]*mutexState
	tickers  []*tickerState
}

var sched *scheduler

func resetSched() {
	main := &gor{id: 0, wake: make(chan struct{}, 1), isMain: true}
	sched = &scheduler{gs: []*gor{main}, cur: main, mutexes: map[*value]*mutexState{}}
}

func (s *scheduler) main() *gor { return s.gs[0] }

// pickNext chooses who runs when cur cannot continue.
func (s *scheduler) pickNext() *gor {
	n := len(s.gs)
	start := 0
	for i, g := range s.gs {
		if g == s.cur {
			start = i + 1
		}
	}
	for k := 0; k < n; k++ {
		g := s.gs[(start+k)%n]
		if g == s.cur || g.done || g.blocked {
			continue
		}
		if g.isMain && g.quiescing {
			continue
		}
		return g
	}
	return nil
}

// park hands control to next and waits until this goroutine is scheduled again.
func (s *scheduler) switchTo(next *gor) {
	me := s.cur
	s.cur = next
	next.wake <- struct{}{}
	<-me.wake
	s.resumed(me)
}

func (s *scheduler) resumed(me *gor) {
	if s.killed {
		panic(gokill{})
	}
	if me.isMain {
		if s.pending != nil {
			r := s.pending
			s.pending = nil
			panic(r)
		}
		if s.deadlock {
			s.deadlock = false
			panic(pathEnd{"deadlock", "all goroutines are blocked; main waits on " + me.desc})
		}
	}
}

// block suspends the current goroutine until somebody clears its blocked flag.
func (s *scheduler) block(desc string) {
	me := s.cur
	me.blocked = true
	me.desc = desc
	for me.blocked {
		next := s.pickNext()
		if next == nil {
			m := s.main()
			if me == m {
				panic(pathEnd{"deadlock", "all goroutines are blocked; main waits on " + desc})
			}
			if m.quiescing {
				m.quiescing = false
				s.switchTo(m)
				continue
			}
			// main is blocked as well
			s.deadlock = true
			m.blocked = false
			s.switchTo(m)
			continue
		}
		s.switchTo(next)
	}
}

// quiesce lets every other goroutine run until it blocks or ends (main only).
func (s *scheduler) quiesce() {
	me := s.cur
	if !me.isMain {
		return
	}
	for {
		me.quiescing = true
		next := s.pickNext()
		if next == nil {
			me.quiescing = false
			return
		}
		s.switchTo(next)
		me.quiescing = false
	}
}

func spawnGoroutine(i *interpreter, pos token.Pos, fn value, args []value) {
	s := sched
	g := &gor{id: len(s.gs), wake: make(chan struct{}, 1)}
	s.gs = append(s.gs, g)
	s.wg.Add(1)
	go func() {
		defer s.wg.Done()
		<-g.wake
		if s.killed {
			return
		}
		func() {
			defer func() {
				r := recover()
				if r == nil {
					return
				}
				if _, ok := r.(gokill); ok {
					return
				}
				// forward to main: a panic in any goroutine ends the program/path
				if s.pending == nil {
					s.pending = r
				}
			}()
			call(i, nil, pos, fn, args)
		}()
		g.done = true
		if s.killed {
			return
		}
		// hand over
		m := s.main()
		if s.pending != nil {
			m.blocked = false
			m.quiescing = false
			s.cur = m
			m.wake <- struct{}{}
			return
		}
		next := s.pickNext()
		if next == nil {
			if m.quiescing {
				m.quiescing = false
			} else if m.blocked {
				s.deadlock = true
				m.blocked = false
			}
			next = m
		}
		s.cur = next
		next.wake <- struct{}{}
	}()
}

func runPendingGoroutines() {
	if sched != nil {
		sched.quiesce()
	}
}

func killGoroutines() {
	s := sched
	if s == nil {
		return
	}
	s.killed = true
	for _, g := range s.gs[1:] {
		if !g.done {
			select {
			case g.wake <- struct{}{}:
			default:
			}
		}
	}
	s.wg.Wait()
}

// ---------------------------------------------------------------- channels

type mchan struct {
	cap    int
	buf    []value
	closed bool
	recvq  []*waiter
	sendq  []*waiter
}

type selWait struct {
	fired bool
	idx   int
	val   value
	ok    bool
	closedSend bool
}

type waiter struct {
	g    *gor
	val  value
	ok   bool
	done bool
	closedSend bool
	sel  *selWait
	idx  int
}

func newChan(capacity int) *mchan { return &mchan{cap: capacity} }

func (c *mchan) length() int {
	if c == nil {
		return 0
	}
	return len(c.buf)
}
func (c *mchan) capacity() int {
	if c == nil {
		return 0
	}
	return c.cap
}

func popWaiter(q *[]*waiter) *waiter {
	for len(*q) > 0 {
		w := (*q)[0]
		*q = (*q)[1:]
		if w.sel != nil && w.sel.fired {
			continue
		}
		return w
	}
	return nil
}

func hasWaiter(q []*waiter) bool {
	for _, w := range q {
		if w.sel == nil || !w.sel.fired {
			return true
		}
	}
	return false
}

func (w *waiter) complete(v value, ok bool) {
	w.val, w.ok, w.done = v, ok, true
	if w.sel != nil {
		w.sel.fired, w.sel.idx, w.sel.val, w.sel.ok = true, w.idx, v, ok
	}
	w.g.blocked = false
}

func chanSend(c *mchan, v value) {
	if c == nil {
		sched.block("send on nil channel")
		panic("unreachable")
	}
	if c.closed {
		raise("send on closed channel")
	}
	if w := popWaiter(&c.recvq); w != nil {
		w.complete(v, true)
		return
	}
	if len(c.buf) < c.cap {
		c.buf = append(c.buf, v)
		return
	}
	w := &waiter{g: sched.cur, val: v}
	c.sendq = append(c.sendq, w)
	sched.block("channel send")
	if w.closedSend {
		raise("send on closed channel")
	}
}

func chanRecv(c *mchan) (value, bool) {
	if c == nil {
		sched.block("receive from nil channel")
		panic("unreachable")
	}
	if len(c.buf) > 0 {
		v := c.buf[0]
		c.buf = c.buf[1:]
		if w := popWaiter(&c.sendq); w != nil {
			c.buf = append(c.buf, w.val)
			w.complete(nil, true)
		}
		return v, true
	}
	if w := popWaiter(&c.sendq); w != nil {
		v := w.val
		w.complete(nil, true)
		return v, true
	}
	if c.closed {
		return nil, false
	}
	w := &waiter{g: sched.cur}
	c.recvq = append(c.recvq, w)
	sched.block("channel receive")
	return w.val, w.ok
}

func chanClose(c *mchan) {
	if c == nil {
		raise("close of nil channel")
	}
	if c.closed {
		raise("close of closed channel")
	}
	c.closed = true
	for {
		w := popWaiter(&c.recvq)
		if w == nil {
			break
		}
		w.complete(nil, false)
	}
	for {
		w := popWaiter(&c.sendq)
		if w == nil {
			break
		}
		w.closedSend = true
		if w.sel != nil {
			w.sel.closedSend = true
		}
		w.complete(nil, false)
	}
}

func doSelect(fr *frame, instr *ssa.Select) value {
	type cs struct {
		ch   *mchan
		send bool
		val  value
	}
	cases := make([]cs, len(instr.States))
	for i, st := range instr.States {
		c := cs{ch: fr.get(st.Chan).(*mchan), send: st.Dir == types.SendOnly}
		if st.Send != nil {
			c.val = fr.get(st.Send)
		}
		cases[i] = c
	}
	var ready []int
	for i, c := range cases {
		if c.ch == nil {
			continue
		}
		if c.send {
			if c.ch.closed || hasWaiter(c.ch.recvq) || len(c.ch.buf) < c.ch.cap {
				ready = append(ready, i)
			}
		} else if len(c.ch.buf) > 0 || hasWaiter(c.ch.sendq) || c.ch.closed {
			ready = append(ready, i)
		}
	}
	chosen := -1
	var recv value
	recvOk := false
	switch {
	case len(ready) > 0:
		k := 0
		if len(ready) > 1 {
			k = P.pureChoice(len(ready))
		}
		chosen = ready[k]
		c := cases[chosen]
		if c.send {
			chanSend(c.ch, c.val)
		} else {
			recv, recvOk = chanRecv(c.ch)
		}
	case !instr.Blocking:
		chosen = -1
	default:
		sw := &selWait{}
		for i, c := range cases {
			if c.ch == nil {
				continue
			}
			w := &waiter{g: sched.cur, sel: sw, idx: i, val: c.val}
			if c.send {
				c.ch.sendq = append(c.ch.sendq, w)
			} else {
				c.ch.recvq = append(c.ch.recvq, w)
			}
		}
		sched.block("select")
		if sw.closedSend {
			raise("send on closed channel")
		}
		chosen, recv, recvOk = sw.idx, sw.val, sw.ok
	}
	r := tuple{chosen, recvOk}
	for i, st := range instr.States {
		if st.Dir == types.RecvOnly {
			var v value
			if i == chosen && recvOk {
				v = recv
			} else {
				v = zero(st.Chan.Type().Underlying().(*types.Chan).Elem())
			}
			r = append(r, v)
		}
	}
	return r
}

// ---------------------------------------------------------------- mutexes

type mwaiter struct {
	g     *gor
	write bool
}

type mutexState struct {
	writer  *gor
	readers int
	readerG map[*gor]int
	waiters []*mwaiter
}

func mutexOf(addr *value) *mutexState {
	if addr == nil {
		raise("invalid memory address or nil pointer dereference")
	}
	m := sched.mutexes[addr]
	if m == nil {
		m = &mutexState{readerG: map[*gor]int{}}
		sched.mutexes[addr] = m
	}
	return m
}

func (m *mutexState) grant() {
	for len(m.waiters) > 0 {
		w := m.waiters[0]
		if w.write {
			if m.writer == nil && m.readers == 0 {
				m.writer = w.g
				m.waiters = m.waiters[1:]
				w.g.blocked = false
			}
			return
		}
		if m.writer != nil {
			return
		}
		m.readers++
		m.readerG[w.g]++
		m.waiters = m.waiters[1:]
		w.g.blocked = false
	}
}

func mutexLock(addr *value) {
	m := mutexOf(addr)
	if m.writer == nil && m.readers == 0 && len(m.waiters) == 0 {
		m.writer = sched.cur
		return
	}
	m.waiters = append(m.waiters, &mwaiter{sched.cur, true})
	sched.block("Lock")
}

func mutexUnlock(addr *value) {
	m := mutexOf(addr)
	if m.writer == nil {
		raise("sync: unlock of unlocked mutex")
	}
	m.writer = nil
	m.grant()
}

func mutexRLock(addr *value) {
	m := mutexOf(addr)
	if m.writer == nil && len(m.waiters) == 0 {
		m.readers++
		m.readerG[sched.cur]++
		return
	}
	m.waiters = append(m.waiters, &mwaiter{sched.cur, false})
	sched.block("RLock")
}

func mutexRUnlock(addr *value) {
	m := mutexOf(addr)
	if m.readers == 0 {
		raise("sync: RUnlock of unlocked RWMutex")
	}
	m.readers--
	if m.readerG[sched.cur] > 0 {
		m.readerG[sched.cur]--
	}
	m.grant()
}

// lockHeld reports how the current goroutine holds the mutex at addr: 0 none, 1 shared, 2 exclusive.
func lockHeld(addr *value) int {
	m := sched.mutexes[addr]
	if m == nil {
		return 0
	}
	if m.writer == sched.cur {
		return 2
	}
	if m.readerG[sched.cur] > 0 {
		return 1
	}
	return 0
}

// ---------------------------------------------------------------- tickers

type tickerState struct {
	ch      *mchan
	ptr     *value
	stopped bool
	oneShot bool  // time.Timer / time.After / time.AfterFunc: fires at most once per (re)arming
	fn      value // time.AfterFunc: run in a new goroutine when fired
}

// newTimer models time.NewTimer / time.AfterFunc: like a ticker, it fires only when the
// harness delivers a tick to it (verifTick), and then only once until it is Reset.
func newTimer(i *interpreter, fn value) value {
	tpkg := i.prog.ImportedPackage("time")
	tt := tpkg.Type("Timer").Type()
	cell := zero(tt)
	ch := newChan(1)
	if fn == nil {
		cell.(structure)[0] = ch
	}
	ptr := &cell
	sched.tickers = append(sched.tickers, &tickerState{ch: ch, ptr: ptr, oneShot: true, fn: fn})
	return ptr
}

func timerOf(ptr *value) *tickerState {
	for _, t := range sched.tickers {
		if t.ptr == ptr {
			return t
		}
	}
	return nil
}

func newTicker(i *interpreter) value {
	tpkg := i.prog.ImportedPackage("time")
	tt := tpkg.Type("Ticker").Type()
	cell := zero(tt)
	ch := newChan(1)
	cell.(structure)[0] = ch
	ptr := &cell
	sched.tickers = append(sched.tickers, &tickerState{ch: ch, ptr: ptr})
	return ptr
}

func tickerStop(ptr *value) {
	for _, t := range sched.tickers {
		if t.ptr == ptr {
			t.stopped = true
		}
	}
}

// fireTicker delivers one tick (like the runtime: dropped if the buffer is full).
func fireTicker(i *interpreter, idx int) bool {
	if idx < 0 || idx >= len(sched.tickers) {
		return false
	}
	t := sched.tickers[idx]
	if t.stopped {
		return false
	}
	if t.oneShot {
		t.stopped = true
	}
	if t.fn != nil {
		spawnGoroutine(i, token.NoPos, t.fn, nil)
		return true
	}
	tv := zero(i.prog.ImportedPackage("time").Type("Time").Type())
	if w := popWaiter(&t.ch.recvq); w != nil {
		w.complete(tv, true)
		return true
	}
	if len(t.ch.buf) < t.ch.cap {
		t.ch.buf = append(t.ch.buf, tv)
		return true
	}
	return false
}

func (p *path) pureChoice(n int) int {
	if n <= 1 {
		return 0
	}
	if p.job.Concrete {
		return 0
	}
	// internal choices (select readiness, map order) are decisions of the path
	// but not part of the harness's verifChoice sequence
	return p.decide(make([]*smtTerm, n), nil)
}

var _ = fmt.Sprint
