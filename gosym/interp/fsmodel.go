package interp

// In-memory file-system model behind os.* (see DESIGN.md 2.5) and the
// environment half of the verif API (snapshots, ticks, yields).

import (
	"fmt"
	"go/token"
	"path/filepath"
	"sort"
	"strings"

	"golang.org/x/tools/go/ssa"
)

type memFile struct {
	data   []value // bytes: uint8 or sym
	synced int
}

type memFS struct {
	files map[string]*memFile
	dirs  map[string]bool
	order []string // creation order of files and dirs
}

type fileHandle struct {
	std    bool // stdin/stdout/stderr of the model: no generation check
	path   string
	f      *memFile
	pos    int
	app    bool
	closed bool
	isDir  bool
	gen    int
}

// fsCache holds concrete file-system images built once per worker process
// (deterministic prefixes), keyed by the harness.
var fsCache = map[string]*memFS{}

var (
	fsys      *memFS
	fsGen     int
	fsSnaps   []*memFS
	errNotExist value // sentinel error values (built once per path through errors.New)
	errExist    value
	errClosed   value
)

func newMemFS() *memFS {
	return &memFS{files: map[string]*memFile{}, dirs: map[string]bool{".": true}}
}

func (fs *memFS) clone() *memFS {
	n := &memFS{files: map[string]*memFile{}, dirs: map[string]bool{}, order: append([]string(nil), fs.order...)}
	for k, f := range fs.files {
		d := make([]value, len(f.data))
		copy(d, f.data)
		n.files[k] = &memFile{data: d, synced: f.synced}
	}
	for k := range fs.dirs {
		n.dirs[k] = true
	}
	return n
}

var (
	stdinFile   *memFile
	stdinHandle *fileHandle
)

// installStdStreams points os.Stdin/Stdout/Stderr (whose package init is not run)
// at model handles.
func (i *interpreter) installStdStreams() {
	osPkg := i.prog.ImportedPackage("os")
	if osPkg == nil {
		return
	}
	stdinFile = &memFile{}
	stdinHandle = &fileHandle{std: true, path: "/dev/stdin", f: stdinFile}
	mk := func(name string, h *fileHandle) {
		g := osPkg.Var(name)
		if g == nil {
			return
		}
		var cell value = h
		*i.globals[g] = &cell
	}
	mk("Stdin", stdinHandle)
	mk("Stdout", &fileHandle{std: true, path: "/dev/stdout", f: &memFile{}, app: true})
	mk("Stderr", &fileHandle{std: true, path: "/dev/stderr", f: &memFile{}, app: true})
}

func resetEnvModels() {
	fsys = newMemFS()
	fsGen = 0
	fsSnaps = nil
	errNotExist, errExist, errClosed = nil, nil, nil
	resetSched()
	syncMaps = map[*value]*omap{}
	resetStdModels()
}

func mkError(i *interpreter, msg string) value {
	fn := i.prog.ImportedPackage("errors").Func("New")
	return call(i, nil, token.NoPos, fn, []value{msg})
}

func sentinel(i *interpreter, which *value, msg string) value {
	if *which == nil {
		*which = mkError(i, msg)
	}
	return *which
}

func cleanPath(p string) string { return filepath.Clean(p) }

func handleOf(v value) *fileHandle {
	ptr, ok := v.(*value)
	if !ok || ptr == nil {
		raise("invalid memory address or nil pointer dereference (nil *os.File)")
	}
	h, ok := (*ptr).(*fileHandle)
	if !ok {
		panic(pathEnd{"unsupported", "operation on an *os.File that was not opened through the model"})
	}
	return h
}

const (
	oAPPEND = 0x400
	oCREATE = 0x40
	oTRUNC  = 0x200
	oEXCL   = 0x80
)

func fsOpen(i *interpreter, name string, flag int) value {
	p := cleanPath(name)
	nilFile := (*value)(nil)
	if fsys.dirs[p] {
		var cell value = &fileHandle{path: p, isDir: true, gen: fsGen}
		return tuple{&cell, iface{}}
	}
	f := fsys.files[p]
	if f == nil {
		if flag&oCREATE == 0 || !fsys.dirs[filepath.Dir(p)] {
			return tuple{nilFile, sentinel(i, &errNotExist, "file does not exist")}
		}
		f = &memFile{}
		fsys.files[p] = f
		fsys.order = append(fsys.order, p)
	}
	if flag&oTRUNC != 0 {
		f.data = nil
	}
	var cell value = &fileHandle{path: p, f: f, app: flag&oAPPEND != 0, gen: fsGen}
	return tuple{&cell, iface{}}
}

func (h *fileHandle) check(i *interpreter) value {
	if h.closed {
		return sentinel(i, &errClosed, "file already closed")
	}
	if h.gen != fsGen && !h.std {
		panic(pathEnd{"harness-error", "file handle used across a file-system restore: " + h.path})
	}
	return nil
}

func ioEOF(i *interpreter) value {
	g := i.prog.ImportedPackage("io").Var("EOF")
	return *i.globals[g]
}

func init() {
	for k, v := range map[string]externalFn{
		"os.OpenFile": func(fr *frame, args []value) value {
			return fsOpen(fr.i, goString(args[0]), int(asInt64(args[1])))
		},
		"os.Open": func(fr *frame, args []value) value {
			return fsOpen(fr.i, goString(args[0]), 0)
		},
		"os.Stat": func(fr *frame, args []value) value {
			p := cleanPath(goString(args[0]))
			if fsys.dirs[p] {
				return tuple{makeFileInfoSized(fr.i, filepath.Base(p), true, 0), iface{}}
			}
			if f := fsys.files[p]; f != nil {
				return tuple{makeFileInfoSized(fr.i, filepath.Base(p), false, len(f.data)), iface{}}
			}
			return tuple{iface{}, sentinel(fr.i, &errNotExist, "file does not exist")}
		},
		"os.IsNotExist": func(fr *frame, args []value) value {
			e := args[0].(iface)
			return e.t != nil && errNotExist != nil && equals(e.t, e, errNotExist.(iface))
		},
		"os.IsExist": func(fr *frame, args []value) value {
			e := args[0].(iface)
			return e.t != nil && errExist != nil && equals(e.t, e, errExist.(iface))
		},
		"os.MkdirAll": func(fr *frame, args []value) value {
			p := cleanPath(goString(args[0]))
			parts := strings.Split(p, "/")
			cur := ""
			for _, part := range parts {
				if cur == "" {
					cur = part
				} else {
					cur = cur + "/" + part
				}
				if fsys.files[cur] != nil {
					return mkError(fr.i, "mkdir: not a directory")
				}
				if !fsys.dirs[cur] {
					fsys.dirs[cur] = true
					fsys.order = append(fsys.order, cur)
				}
			}
			return iface{}
		},
		"os.RemoveAll": func(fr *frame, args []value) value {
			p := cleanPath(goString(args[0]))
			for k := range fsys.files {
				if k == p || strings.HasPrefix(k, p+"/") {
					delete(fsys.files, k)
				}
			}
			for k := range fsys.dirs {
				if k == p || strings.HasPrefix(k, p+"/") {
					delete(fsys.dirs, k)
				}
			}
			var no []string
			for _, k := range fsys.order {
				if k == p || strings.HasPrefix(k, p+"/") {
					continue
				}
				no = append(no, k)
			}
			fsys.order = no
			return iface{}
		},
		"(*os.File).Close": func(fr *frame, args []value) value {
			h := handleOf(args[0])
			if h.closed {
				return sentinel(fr.i, &errClosed, "file already closed")
			}
			h.closed = true
			return iface{}
		},
		"(*os.File).Sync": func(fr *frame, args []value) value {
			h := handleOf(args[0])
			if e := h.check(fr.i); e != nil {
				return e
			}
			h.f.synced = len(h.f.data)
			return iface{}
		},
		"(*os.File).WriteAt": func(fr *frame, args []value) value {
			h := handleOf(args[0])
			if e := h.check(fr.i); e != nil {
				return tuple{0, e}
			}
			b := args[1].([]value)
			off := int(asInt64(args[2]))
			if off < 0 {
				return tuple{0, mkError(fr.i, "negative offset")}
			}
			if h.app {
				return tuple{0, mkError(fr.i, "os: invalid use of WriteAt on file opened with O_APPEND")}
			}
			for len(h.f.data) < off+len(b) {
				h.f.data = append(h.f.data, uint8(0))
			}
			copy(h.f.data[off:], b)
			return tuple{len(b), iface{}}
		},
		"(*os.File).ReadAt": func(fr *frame, args []value) value {
			h := handleOf(args[0])
			if e := h.check(fr.i); e != nil {
				return tuple{0, e}
			}
			b := args[1].([]value)
			off := int(asInt64(args[2]))
			if off < 0 {
				return tuple{0, mkError(fr.i, "negative offset")}
			}
			n := 0
			if off < len(h.f.data) {
				n = copy(b, h.f.data[off:])
			}
			if n < len(b) {
				return tuple{n, ioEOF(fr.i)}
			}
			return tuple{n, iface{}}
		},
		"(*os.File).Write": func(fr *frame, args []value) value {
			h := handleOf(args[0])
			if e := h.check(fr.i); e != nil {
				return tuple{0, e}
			}
			b := args[1].([]value)
			if h.app {
				h.pos = len(h.f.data)
			}
			for len(h.f.data) < h.pos+len(b) {
				h.f.data = append(h.f.data, uint8(0))
			}
			copy(h.f.data[h.pos:], b)
			h.pos += len(b)
			return tuple{len(b), iface{}}
		},
		"(*os.File).Read": func(fr *frame, args []value) value {
			h := handleOf(args[0])
			if e := h.check(fr.i); e != nil {
				return tuple{0, e}
			}
			b := args[1].([]value)
			if len(b) == 0 {
				return tuple{0, iface{}}
			}
			if h.pos >= len(h.f.data) {
				return tuple{0, ioEOF(fr.i)}
			}
			n := copy(b, h.f.data[h.pos:])
			h.pos += n
			return tuple{n, iface{}}
		},
		"(*os.File).Fd": func(fr *frame, args []value) value {
			switch handleOf(args[0]).path {
			case "/dev/stdin":
				return uintptr(0)
			case "/dev/stdout":
				return uintptr(1)
			case "/dev/stderr":
				return uintptr(2)
			}
			return uintptr(3)
		},
		// golang.org/x/term on the model terminal
		"golang.org/x/term.IsTerminal": func(fr *frame, args []value) value { return asInt64(args[0]) <= 2 },
		"golang.org/x/term.MakeRaw": func(fr *frame, args []value) value {
			return tuple{(*value)(nil), iface{}}
		},
		"golang.org/x/term.Restore": func(fr *frame, args []value) value { return iface{} },
		"(*os.File).Seek": func(fr *frame, args []value) value {
			h := handleOf(args[0])
			if e := h.check(fr.i); e != nil {
				return tuple{int64(0), e}
			}
			off := int(asInt64(args[1]))
			var base int
			switch int(asInt64(args[2])) {
			case 0: // io.SeekStart
			case 1: // io.SeekCurrent
				base = h.pos
			case 2: // io.SeekEnd
				base = len(h.f.data)
			default:
				return tuple{int64(0), mkError(fr.i, "seek: invalid whence")}
			}
			if base+off < 0 {
				return tuple{int64(0), mkError(fr.i, "seek: invalid argument")}
			}
			// (writes through a handle opened with O_APPEND go to the end regardless: see Write)
			h.pos = base + off
			return tuple{int64(h.pos), iface{}}
		},
		"(*os.File).Truncate": func(fr *frame, args []value) value {
			h := handleOf(args[0])
			if e := h.check(fr.i); e != nil {
				return e
			}
			n := int(asInt64(args[1]))
			if n < 0 {
				return mkError(fr.i, "truncate: invalid argument")
			}
			for len(h.f.data) < n {
				h.f.data = append(h.f.data, uint8(0))
			}
			h.f.data = h.f.data[:n]
			if h.f.synced > n {
				h.f.synced = n
			}
			return iface{}
		},
		"(*os.File).Readdir": func(fr *frame, args []value) value {
			h := handleOf(args[0])
			if !h.isDir {
				return tuple{[]value(nil), mkError(fr.i, "readdir: not a directory")}
			}
			var out []value
			for _, k := range fsys.order {
				if filepath.Dir(k) != h.path || k == h.path {
					continue
				}
				out = append(out, makeFileInfo(fr.i, filepath.Base(k), fsys.dirs[k]))
			}
			return tuple{out, iface{}}
		},
		"path/filepath.Join": func(fr *frame, args []value) value {
			var parts []string
			for _, a := range args[0].([]value) {
				parts = append(parts, goString(a))
			}
			return filepath.Join(parts...)
		},
	} {
		externals[k] = v
	}
}

// makeFileInfo builds a value of the harness-provided type verifFileInfo
// (declared in the storage package's verif runtime), which implements fs.FileInfo.
func makeFileInfo(i *interpreter, name string, isDir bool) value {
	return makeFileInfoSized(i, name, isDir, 0)
}

func makeFileInfoSized(i *interpreter, name string, isDir bool, size int) value {
	var pkg *ssa.Package
	for _, p := range i.prog.AllPackages() {
		if p.Pkg.Path() == W.ModPath+"/storage" {
			pkg = p
		}
	}
	if pkg == nil || pkg.Type("verifFileInfo") == nil {
		panic(pathEnd{"harness-error", "storage.verifFileInfo not declared"})
	}
	t := pkg.Type("verifFileInfo").Type()
	return iface{t: t, v: structure{name, isDir, int64(size)}}
}

// ---------------------------------------------------------------- environment API

func callVerifEnv(fr *frame, name string, args []value) (value, bool) {
	switch name {
	case "verifFSReset":
		fsys = newMemFS()
		fsGen++
		return nil, true
	case "verifFSSnapshot":
		fsSnaps = append(fsSnaps, fsys.clone())
		return len(fsSnaps) - 1, true
	case "verifFSRestore":
		id := int(asInt64(args[0]))
		if id < 0 || id >= len(fsSnaps) {
			panic(pathEnd{"harness-error", "verifFSRestore: bad snapshot id"})
		}
		fsys = fsSnaps[id].clone()
		fsGen++
		return nil, true
	case "verifFSCutToSynced":
		p := cleanPath(goString(args[0]))
		if f := fsys.files[p]; f != nil && f.synced < len(f.data) {
			f.data = f.data[:f.synced]
		}
		return nil, true
	case "verifFSMarkSynced":
		return nil, true
	case "verifFSCacheLoad":
		key := goString(args[0])
		if img, ok := fsCache[key]; ok {
			fsys = img.clone()
			fsGen++
			return true, true
		}
		return false, true
	case "verifFSCacheSave":
		key := goString(args[0])
		for _, f := range fsys.files {
			for _, b := range f.data {
				if _, ok := b.(uint8); !ok {
					panic(pathEnd{"harness-error", "verifFSCacheSave: file system holds symbolic bytes"})
				}
			}
		}
		fsCache[key] = fsys.clone()
		return nil, true
	case "verifConsoleIO":
		// the process's terminal: stdin delivers the given bytes and then end of
		// file; what is written to stdout/stderr is dropped
		stdinFile.data = append([]value(nil), args[0].([]value)...)
		stdinHandle.pos = 0
		call(fr.i, fr, token.NoPos, args[1], nil)
		return nil, true
	case "verifFSFileLen":
		p := cleanPath(goString(args[0]))
		if f := fsys.files[p]; f != nil {
			return len(f.data), true
		}
		return -1, true
	case "verifTick":
		ok := fireTicker(fr.i, int(asInt64(args[0])))
		if ok {
			sched.quiesce()
		}
		return ok, true
	case "verifYield":
		sched.quiesce()
		return nil, true
	case "verifNumTickers":
		n := 0
		for _, t := range sched.tickers {
			if !t.stopped {
				n++
			}
		}
		_ = n
		return len(sched.tickers), true
	case "verifLockHeld":
		a := args[0]
		if it, ok := a.(iface); ok {
			a = it.v
		}
		ptr, ok := a.(*value)
		if !ok {
			panic(pathEnd{"harness-error", "verifLockHeld wants a pointer to a mutex"})
		}
		return lockHeld(ptr), true
	case "verifWatchCalls":
		// verifWatchCalls(names, cb): cb(name) runs on every call of a function whose
		// full name (ssa Function.String()) is listed; nil cb switches it off
		P.watchNames = nil
		for _, n := range args[0].([]value) {
			P.watchNames = append(P.watchNames, goString(n))
		}
		P.watchHit = map[*ssa.Function]bool{}
		switch f := args[1].(type) {
		case *closure:
			P.watchCB = f
		case *ssa.Function:
			if f == nil {
				P.watchCB = nil
			} else {
				P.watchCB = f
			}
		}
		return nil, true
	case "verifGoroutine":
		return sched.cur.id, true
	case "verifMapOrderChoice":
		// verifMapOrderChoice(pred): from now on, ranging over a map yields the
		// entries whose value satisfies pred last and in an order chosen by
		// forking (nil switches it off)
		switch f := args[0].(type) {
		case *closure:
			P.mapOrderPred = f
		case *ssa.Function:
			if f == nil {
				P.mapOrderPred = nil
			} else {
				P.mapOrderPred = f
			}
		}
		return nil, true
	}
	return nil, false
}

var _ = sort.Strings
var _ = fmt.Sprint
