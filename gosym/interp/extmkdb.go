package interp

// Intrinsics for library code that cannot be interpreted (reflection, unsafe,
// assembly) or whose interpretation is not the subject (formatting). Each has a
// concrete fast path that uses the real library and a symbolic path.

import (
	"fmt"
	"go/token"
	"go/types"
	"math"
	"math/bits"
	"strconv"
	"strings"
	"unicode"

	"golang.org/x/tools/go/ssa"

	"gosym/smt"
)

// fallThrough is returned by an external that wants the real body interpreted instead.
type fallThrough struct{}

func basicKindOfType(t types.Type) (types.BasicKind, bool) {
	b, ok := t.Underlying().(*types.Basic)
	if !ok {
		return 0, false
	}
	k := b.Kind()
	if k == types.Byte {
		k = types.Uint8
	}
	if k == types.Rune {
		k = types.Int32
	}
	return k, true
}

// leBytes renders scalar v of kind k as little-endian byte values.
func leBytes(k types.BasicKind, v value) []value {
	if k == types.Bool {
		switch b := v.(type) {
		case bool:
			if b {
				return []value{uint8(1)}
			}
			return []value{uint8(0)}
		case sym:
			c := P.ctx
			return []value{mkVal(types.Uint8, c.Ite(b.t, c.BV(8, 1), c.BV(8, 0)))}
		}
	}
	w := kindWidth[k]
	if w <= 0 || w%8 != 0 {
		panic(pathEnd{"unsupported", fmt.Sprintf("binary encoding of kind %v", k)})
	}
	t := termOf(v)
	out := make([]value, w/8)
	for i := range out {
		out[i] = mkVal(types.Uint8, P.ctx.Extract(t, 8*i+7, 8*i))
	}
	return out
}

// fromLEBytes assembles a scalar of kind k from little-endian byte values.
func fromLEBytes(k types.BasicKind, b []value) value {
	c := P.ctx
	if k == types.Bool {
		switch x := b[0].(type) {
		case uint8:
			return x != 0
		case sym:
			return mkVal(types.Bool, c.BNot(c.Eq(x.t, c.BV(8, 0))))
		}
	}
	acc := termOf(b[len(b)-1])
	for i := len(b) - 2; i >= 0; i-- {
		acc = c.Concat(acc, termOf(b[i]))
	}
	return mkVal(k, acc)
}

// findMethod returns the exported method name of type t, or nil.
func findMethod(i *interpreter, t types.Type, name string) *ssa.Function {
	sel := i.prog.MethodSets.MethodSet(t).Lookup(nil, name)
	if sel == nil {
		return nil
	}
	return i.prog.MethodValue(sel)
}

func callMethod(fr *frame, recv iface, name string, args ...value) value {
	fn := findMethod(fr.i, recv.t, name)
	if fn == nil {
		panic(fmt.Sprintf("engine: no method %s on %s", name, recv.t))
	}
	return call(fr.i, fr, token.NoPos, fn, append([]value{recv.v}, args...))
}

func extBinaryWrite(fr *frame, args []value) value {
	w := args[0].(iface)
	data := args[2].(iface)
	if w.t == nil || data.t == nil {
		raise("binary.Write: nil writer or data")
	}
	var bs []value
	switch ut := data.t.Underlying().(type) {
	case *types.Basic:
		k, _ := basicKindOfType(data.t)
		bs = leBytes(k, data.v)
	case *types.Slice:
		ek, ok := basicKindOfType(ut.Elem())
		if !ok {
			panic(pathEnd{"unsupported", "binary.Write of " + data.t.String()})
		}
		for _, e := range data.v.([]value) {
			bs = append(bs, leBytes(ek, e)...)
		}
	default:
		panic(pathEnd{"unsupported", "binary.Write of " + data.t.String()})
	}
	if bs == nil {
		bs = []value{}
	}
	// fast path for *bytes.Buffer: Buffer.Write appends to buf and clears lastRead
	if st, ok := bufferOf(w); ok {
		buf, _ := st[0].([]value)
		st[0] = append(buf, bs...)
		st[2] = int8(0)
		return iface{}
	}
	res := callMethod(fr, w, "Write", bs).(tuple)
	return res[1]
}

// bufferOf returns the field structure of w when it is a non-nil *bytes.Buffer
// of the expected layout {buf []byte; off int; lastRead int8}.
func bufferOf(w iface) (structure, bool) {
	pt, ok := w.t.(*types.Pointer)
	if !ok {
		return nil, false
	}
	n, ok := pt.Elem().(*types.Named)
	if !ok || n.Obj().Pkg() == nil || n.Obj().Pkg().Path() != "bytes" || n.Obj().Name() != "Buffer" {
		return nil, false
	}
	ptr, ok := w.v.(*value)
	if !ok || ptr == nil {
		return nil, false
	}
	st, ok := (*ptr).(structure)
	if !ok || len(st) != 3 {
		return nil, false
	}
	if _, ok := st[1].(int); !ok {
		return nil, false
	}
	if _, ok := st[2].(int8); !ok {
		return nil, false
	}
	return st, true
}

func extBinaryRead(fr *frame, args []value) value {
	r := args[0].(iface)
	data := args[2].(iface)
	pt, ok := data.t.Underlying().(*types.Pointer)
	if !ok {
		panic(pathEnd{"unsupported", "binary.Read into " + data.t.String()})
	}
	k, ok := basicKindOfType(pt.Elem())
	if !ok {
		panic(pathEnd{"unsupported", "binary.Read into " + data.t.String()})
	}
	n := 1
	if k != types.Bool {
		n = kindWidth[k] / 8
	}
	// fast path for *bytes.Buffer holding at least n unread bytes
	if st, ok := bufferOf(r); ok {
		bb, _ := st[0].([]value)
		off := st[1].(int)
		if len(bb)-off >= n {
			ptr := data.v.(*value)
			if ptr == nil {
				raise("invalid memory address or nil pointer dereference")
			}
			*ptr = fromLEBytes(k, bb[off:off+n])
			st[1] = off + n
			st[2] = int8(-1) // opRead
			return iface{}
		}
	}
	buf := make([]value, n)
	for i := range buf {
		buf[i] = uint8(0)
	}
	readFull := fr.i.prog.ImportedPackage("io").Func("ReadFull")
	res := call(fr.i, fr, token.NoPos, readFull, []value{r, buf}).(tuple)
	if err := res[1].(iface); err.t != nil {
		return err
	}
	ptr := data.v.(*value)
	if ptr == nil {
		raise("invalid memory address or nil pointer dereference")
	}
	*ptr = fromLEBytes(k, buf)
	return iface{}
}

// ---------------------------------------------------------------- formatting

// goValue converts an interpreter value to a native Go value for fmt (concrete only).
func goValue(fr *frame, v value) (interface{}, bool) {
	switch v := v.(type) {
	case iface:
		if v.t == nil {
			return nil, true
		}
		// error / Stringer
		_, isBasic := v.t.Underlying().(*types.Basic)
		if isBasic && (isSym(v.v) || !isConcreteScalar(v.v)) {
			return goValue(fr, v.v)
		}
		if n, ok := v.t.(*types.Named); ok && isBasic && n.Obj().Pkg() != nil && n.Obj().Pkg().Path() == "runtime" {
			// recovered run-time errors: the engine stores their full text in a runtime.errorString
			return goValue(fr, v.v)
		}
		for _, m := range []string{"Error", "String"} {
			if fn := findMethod(fr.i, v.t, m); fn != nil && fn.Signature.Params().Len() == 0 && fn.Signature.Results().Len() == 1 {
				if b, ok := fn.Signature.Results().At(0).Type().Underlying().(*types.Basic); ok && b.Kind() == types.String {
					s := call(fr.i, fr, token.NoPos, fn, []value{v.v})
					gs, ok := s.(string)
					if !ok {
						return nil, false
					}
					if isBasic {
						// a named scalar with a String method: the text for %v %s %q %x %X, the number for %d etc.
						return fmtNamed{v.v, gs}, true
					}
					return gs, true
				}
			}
		}
		if stt, ok := v.t.Underlying().(*types.Struct); ok {
			if g, ok := goValue(fr, v.v); ok {
				if fs, ok := g.(fmtStruct); ok && len(fs.vals) == stt.NumFields() {
					for i := 0; i < stt.NumFields(); i++ {
						fs.names = append(fs.names, stt.Field(i).Name())
					}
					return fs, true
				}
				return g, true
			}
			return nil, false
		}
		return goValue(fr, v.v)
	case bool, int, int8, int16, int32, int64, uint, uint8, uint16, uint32, uint64, uintptr, float32, float64, string:
		return v, true
	case sym, symstr:
		return nil, false
	case opaque:
		return "<" + v.what + ">", true
	case []value:
		out := make([]interface{}, len(v))
		for i, e := range v {
			g, ok := goValue(fr, e)
			if !ok {
				return nil, false
			}
			out[i] = g
		}
		return out, true
	case array:
		return goValue(fr, []value(v))
	case *omap:
		out := map[interface{}]interface{}{}
		if v == nil {
			return out, true
		}
		for _, e := range v.entries {
			if e.dead {
				continue
			}
			k, ok := goValue(fr, e.key)
			x, ok2 := goValue(fr, e.val)
			if !ok || !ok2 {
				return nil, false
			}
			switch k.(type) {
			case bool, int, int8, int16, int32, int64, uint, uint8, uint16, uint32, uint64, uintptr, float32, float64, string:
			default:
				k = fmt.Sprint(k)
			}
			out[k] = x
		}
		return out, true
	case structure:
		out := make([]interface{}, len(v))
		for i, e := range v {
			g, ok := goValue(fr, e)
			if !ok {
				return nil, false
			}
			out[i] = g
		}
		return fmtStruct{vals: out}, true
	case *value:
		if v == nil {
			return "<nil>", true
		}
		return fmt.Sprintf("%p", v), true
	}
	return fmt.Sprintf("<%T>", v), true
}

// fmtNamed formats like a value of a named basic type that has a String (or Error) method.
type fmtNamed struct {
	v interface{}
	s string
}

func (n fmtNamed) Format(st fmt.State, verb rune) {
	switch verb {
	case 'v', 's', 'q', 'x', 'X':
		if !(verb == 'v' && st.Flag('#')) {
			fmt.Fprintf(st, fmt.FormatString(st, verb), n.s)
			return
		}
	}
	fmt.Fprintf(st, fmt.FormatString(st, verb), n.v)
}

func isConcreteScalar(v value) bool {
	switch v.(type) {
	case bool, int, int8, int16, int32, int64, uint, uint8, uint16, uint32, uint64, uintptr, float32, float64, string:
		return true
	}
	return false
}

type fmtStruct struct {
	names []string
	vals  []interface{}
}

func (s fmtStruct) Format(st fmt.State, verb rune) {
	plus := verb == 'v' && st.Flag('+') && len(s.names) == len(s.vals)
	var sb strings.Builder
	sb.WriteByte('{')
	for i, e := range s.vals {
		if i > 0 {
			sb.WriteByte(' ')
		}
		if plus {
			sb.WriteString(s.names[i])
			sb.WriteByte(':')
			fmt.Fprintf(&sb, "%+v", e)
		} else {
			fmt.Fprint(&sb, e)
		}
	}
	sb.WriteByte('}')
	st.Write([]byte(sb.String()))
}

func goArgs(fr *frame, vs []value) ([]interface{}, bool) {
	out := make([]interface{}, len(vs))
	all := true
	for i, a := range vs {
		g, ok := goValue(fr, a)
		if !ok {
			all = false
			g = "<sym>"
		}
		out[i] = g
	}
	return out, all
}

func extSprintf(fr *frame, args []value) value {
	format := goString(args[0])
	vs := args[1].([]value)
	gas, all := goArgs(fr, vs)
	if !all {
		if r, ok := symSprintf(fr, format, vs); ok {
			return r
		}
		// not a format we model: the result may be passed around (error texts)
		// but any operation on it stops the path as unsupported
		return opaque{"fmt.Sprintf(" + format + ") over symbolic values"}
	}
	return fmt.Sprintf(format, gas...)
}

func extSprint(fr *frame, args []value) value {
	vs := args[0].([]value)
	gas, all := goArgs(fr, vs)
	if !all {
		// Sprint: operands printed with %v, a space between two operands when neither is a string
		isStrArg := func(v value) bool {
			if it, ok := v.(iface); ok {
				v = it.v
			}
			return isStr(v)
		}
		format := ""
		for i := range vs {
			if i > 0 && !isStrArg(vs[i-1]) && !isStrArg(vs[i]) {
				format += " "
			}
			format += "%v"
		}
		if r, ok := symSprintf(fr, format, vs); ok {
			return r
		}
		return opaque{"fmt.Sprint over symbolic values"}
	}
	return fmt.Sprint(gas...)
}

// symSprintf handles formats made of literal text and %v/%s/%d verbs over
// values that may be symbolic integers or strings.
func symSprintf(fr *frame, format string, vs []value) (value, bool) {
	var out []value
	ai := 0
	for i := 0; i < len(format); i++ {
		ch := format[i]
		if ch != '%' {
			out = append(out, ch)
			continue
		}
		i++
		if i >= len(format) {
			return nil, false
		}
		switch format[i] {
		case '%':
			out = append(out, uint8('%'))
		case 'v', 's', 'd':
			if ai >= len(vs) {
				return nil, false
			}
			a := vs[ai]
			ai++
			b, ok := symFormatValue(fr, a)
			if !ok {
				return nil, false
			}
			out = append(out, b...)
		default:
			return nil, false
		}
	}
	if ai != len(vs) {
		return nil, false
	}
	return normStr(out), true
}

func symFormatValue(fr *frame, a value) ([]value, bool) {
	if it, ok := a.(iface); ok {
		if it.t == nil {
			return strBytes("<nil>"), true
		}
		if _, isBasic := it.t.Underlying().(*types.Basic); !isBasic {
			g, ok := goValue(fr, it)
			if !ok {
				return nil, false
			}
			return strBytes(fmt.Sprint(g)), true
		}
		a = it.v
	}
	switch a := a.(type) {
	case string, symstr:
		return strBytes(a), true
	case sym:
		if a.k == types.Bool {
			if P.branch(a.t) {
				return strBytes("true"), true
			}
			return strBytes("false"), true
		}
		if w, ok := kindWidth[a.k]; ok && w > 0 {
			return symDecimal(a), true
		}
		return nil, false
	default:
		g, ok := goValue(fr, a)
		if !ok {
			return nil, false
		}
		return strBytes(fmt.Sprint(g)), true
	}
}

// symDecimal renders a symbolic integer in base 10: it forks on the sign and
// on the number of digits, then introduces digit variables d_i in [0,9] with
// |x| = sum d_i*10^i (constant multiplications only).
func symDecimal(a sym) []value {
	c := P.ctx
	w := a.t.W
	t := a.t
	var out []value
	if isSignedKind(a.k) {
		if P.branch(c.Slt(t, c.BV(w, 0))) {
			out = append(out, uint8('-'))
			t = c.Neg(t) // MinInt stays negative as signed but is right as unsigned magnitude
		}
	}
	// number of digits
	maxDigits := 20
	if w <= 32 {
		maxDigits = 10
	}
	if w <= 16 {
		maxDigits = 5
	}
	if w <= 8 {
		maxDigits = 3
	}
	n := 1
	pow := uint64(10)
	for n < maxDigits {
		if pow > smt.Mask(w) && w < 64 {
			break
		}
		if !P.branch(c.Ule(c.BV(w, pow), t)) {
			break
		}
		n++
		if pow > math.MaxUint64/10 {
			pow = 0
			break
		}
		pow *= 10
	}
	// digits
	ew := w + 4 // head-room so that the sum cannot wrap
	if ew > 64 {
		ew = 64
	}
	sum := c.BV(ew, 0)
	digs := make([]value, n)
	p10 := uint64(1)
	for i := 0; i < n; i++ {
		name := fmt.Sprintf("dig%d_%d", len(P.ctx.Vars), i)
		d := c.Var(name, 8)
		P.assertPC(c.Ule(d, c.BV(8, 9)))
		if i == n-1 && n > 1 {
			P.assertPC(c.Ule(c.BV(8, 1), d))
		}
		sum = c.Add(sum, c.Mul(c.ZExt(d, ew), c.BV(ew, p10)))
		digs[n-1-i] = mkVal(types.Uint8, c.Add(d, c.BV(8, '0')))
		p10 *= 10
	}
	if ew == w {
		P.assertPC(c.Eq(sum, t))
	} else {
		P.assertPC(c.Eq(sum, c.ZExt(t, ew)))
	}
	return append(out, digs...)
}

func extErrorf(fr *frame, args []value) value {
	format := goString(args[0])
	vs := args[1].([]value)
	gas, _ := goArgs(fr, vs)
	// find the %w operand, if any
	var wrapped value
	ai := 0
	for i := 0; i+1 < len(format); i++ {
		if format[i] != '%' {
			continue
		}
		i++
		if format[i] == '%' {
			continue
		}
		if format[i] == 'w' && ai < len(vs) && wrapped == nil {
			wrapped = vs[ai]
		}
		ai++
	}
	msg := fmt.Sprintf(strings.ReplaceAll(format, "%w", "%v"), gas...)
	if wrapped == nil {
		return mkError(fr.i, msg)
	}
	fpkg := fr.i.prog.ImportedPackage("fmt")
	wt := fpkg.Type("wrapError")
	if wt == nil {
		return mkError(fr.i, msg)
	}
	var cell value = structure{msg, wrapped}
	return iface{t: types.NewPointer(wt.Type()), v: &cell}
}

func extErrorsIs(fr *frame, args []value) value {
	err := args[0].(iface)
	target := args[1].(iface)
	if err.t == nil || target.t == nil {
		return err.t == nil && target.t == nil
	}
	var walk func(e iface, depth int) bool
	walk = func(e iface, depth int) bool {
		if e.t == nil || depth > 64 {
			return false
		}
		if sameType(e.t, target.t) && types.Comparable(e.t) {
			if P.truth(equalsV(e.t, e.v, target.v)) {
				return true
			}
		}
		if fn := findMethod(fr.i, e.t, "Is"); fn != nil && fn.Signature.Params().Len() == 1 && fn.Signature.Results().Len() == 1 {
			if P.truth(call(fr.i, fr, token.NoPos, fn, []value{e.v, target})) {
				return true
			}
		}
		// Unwrap() error and Unwrap() []error (errors.Join, several %w)
		for _, u := range errUnwrapList(fr, e) {
			if walk(u, depth+1) {
				return true
			}
		}
		return false
	}
	return walk(err, 0)
}

func noopPrint(fr *frame, args []value) value { return tuple{0, iface{}} }

// isStdStream reports whether w is an *os.File that was not opened through the
// file-system model (stdout/stderr): output to it is dropped.
func isStdStream(w iface) bool {
	if w.t == nil {
		return true
	}
	if pt, ok := w.t.(*types.Pointer); ok {
		if n, ok := pt.Elem().(*types.Named); ok && n.Obj().Pkg() != nil && n.Obj().Pkg().Path() == "os" && n.Obj().Name() == "File" {
			if ptr, ok := w.v.(*value); ok && ptr != nil {
				if _, isModel := (*ptr).(*fileHandle); isModel {
					return false
				}
			}
			return true
		}
		if n, ok := pt.Elem().(*types.Named); ok && n.Obj().Pkg() != nil && n.Obj().Pkg().Path() == "text/tabwriter" {
			return true
		}
	}
	return false
}

// extFprintf formats like Sprintf and writes to w (dropped for stdout/stderr).
func extFprintf(fr *frame, args []value) value {
	w := args[0].(iface)
	if isStdStream(w) {
		return tuple{0, iface{}}
	}
	s := extSprintf(fr, args[1:])
	res := callMethod(fr, w, "Write", append([]value{}, strBytes(s)...)).(tuple)
	return res
}

func extFprint(fr *frame, args []value) value {
	w := args[0].(iface)
	if isStdStream(w) {
		return tuple{0, iface{}}
	}
	s := extSprint(fr, args[1:])
	return callMethod(fr, w, "Write", append([]value{}, strBytes(s)...)).(tuple)
}

// ---------------------------------------------------------------- sort

func extSortSlice(fr *frame, args []value) value {
	x := args[0].(iface)
	less := args[1]
	s, ok := x.v.([]value)
	if !ok {
		raise("sort.Slice: not a slice")
	}
	n := len(s)
	swap := nativeFn(func(a []value) value {
		i, j := int(asInt64(a[0])), int(asInt64(a[1]))
		s[i], s[j] = s[j], s[i]
		return nil
	})
	pd := fr.i.prog.ImportedPackage("sort").Func("pdqsort_func")
	if pd == nil {
		panic(pathEnd{"unsupported", "sort.pdqsort_func not found"})
	}
	data := structure{less, swap}
	call(fr.i, fr, token.NoPos, pd, []value{data, 0, n, bits.Len(uint(n))})
	return nil
}

// ---------------------------------------------------------------- strings / bytes / unicode

func isASCIISpaceTerm(t *smt.Term) *smt.Term {
	c := P.ctx
	w := t.W
	r := c.Eq(t, c.BV(w, ' '))
	// \t \n \v \f \r  = 9..13
	r = c.BOr(r, c.BAnd(c.Ule(c.BV(w, 9), t), c.Ule(t, c.BV(w, 13))))
	return r
}

func extTrimSpace(fr *frame, args []value) value {
	if s, ok := args[0].(string); ok {
		return strings.TrimSpace(s)
	}
	b := strBytes(args[0])
	lo, hi := 0, len(b)
	isSpace := func(v value) bool {
		switch v := v.(type) {
		case uint8:
			if v >= 0x80 {
				panic(pathEnd{"unsupported", "TrimSpace: non-ASCII byte next to symbolic bytes"})
			}
			return v == ' ' || (v >= 9 && v <= 13)
		case sym:
			asciiOnly(v, "byte in TrimSpace")
			return P.branch(isASCIISpaceTerm(v.t))
		}
		panic("isSpace")
	}
	for lo < hi && isSpace(b[lo]) {
		lo++
	}
	for hi > lo && isSpace(b[hi-1]) {
		hi--
	}
	return normStr(b[lo:hi])
}

func caseMap(upper bool) externalFn {
	return func(fr *frame, args []value) value {
		if s, ok := args[0].(string); ok {
			if upper {
				return strings.ToUpper(s)
			}
			return strings.ToLower(s)
		}
		c := P.ctx
		b := strBytes(args[0])
		// text that may contain non-ASCII bytes: the library maps whole runes
		// (and replaces invalid bytes), so the symbolic bytes are enumerated
		// (every value, no cap below 256) and the real function is applied
		nonASCII := c.Bool(false)
		concNonASCII := false
		for _, v := range b {
			switch v := v.(type) {
			case uint8:
				concNonASCII = concNonASCII || v >= 0x80
			case sym:
				nonASCII = c.BOr(nonASCII, c.Ule(c.BV(8, 0x80), v.t))
			}
		}
		if concNonASCII || P.branch(nonASCII) {
			raw := make([]byte, len(b))
			for i, v := range b {
				switch v := v.(type) {
				case uint8:
					raw[i] = v
				case sym:
					raw[i] = byte(P.concretizeCap(v, "byte of non-ASCII text in ToUpper/ToLower", 256))
				}
			}
			if upper {
				return strings.ToUpper(string(raw))
			}
			return strings.ToLower(string(raw))
		}
		out := make([]value, len(b))
		for i, v := range b {
			switch v := v.(type) {
			case uint8:
				if v >= 0x80 {
					panic(pathEnd{"unsupported", "case mapping: non-ASCII byte next to symbolic bytes"})
				}
				if upper {
					out[i] = strings.ToUpper(string(rune(v)))[0]
				} else {
					out[i] = strings.ToLower(string(rune(v)))[0]
				}
			case sym:
				var in *smt.Term
				if upper {
					in = c.BAnd(c.Ule(c.BV(8, 'a'), v.t), c.Ule(v.t, c.BV(8, 'z')))
					out[i] = mkVal(types.Uint8, c.Ite(in, c.Sub(v.t, c.BV(8, 32)), v.t))
				} else {
					in = c.BAnd(c.Ule(c.BV(8, 'A'), v.t), c.Ule(v.t, c.BV(8, 'Z')))
					out[i] = mkVal(types.Uint8, c.Ite(in, c.Add(v.t, c.BV(8, 32)), v.t))
				}
			}
		}
		return normStr(out)
	}
}

func extStringsCompare(fr *frame, args []value) value {
	a, aok := args[0].(string)
	b, bok := args[1].(string)
	if aok && bok {
		return strings.Compare(a, b)
	}
	c := P.ctx
	lt := strLessV(args[0], args[1], false)
	eq := strEqV(args[0], args[1])
	return mkVal(types.Int, c.Ite(termOf(lt), c.BV(64, ^uint64(0)), c.Ite(termOf(eq), c.BV(64, 0), c.BV(64, 1))))
}

func extBytesIndexByte(fr *frame, args []value) value {
	s := args[0].([]value)
	for i, b := range s {
		if P.truth(scalarEqV(b, args[1])) {
			return i
		}
	}
	return -1
}

func extStringIndexByte(fr *frame, args []value) value {
	s := strBytes(args[0])
	for i, b := range s {
		if P.truth(scalarEqV(b, args[1])) {
			return i
		}
	}
	return -1
}

func extStringsIndex(fr *frame, args []value) value {
	a, aok := args[0].(string)
	b, bok := args[1].(string)
	if aok && bok {
		return strings.Index(a, b)
	}
	hs, nd := strBytes(args[0]), strBytes(args[1])
	for i := 0; i+len(nd) <= len(hs); i++ {
		var m value = true
		for j := range nd {
			m = andV(m, scalarEqV(hs[i+j], nd[j]))
			if mb, ok := m.(bool); ok && !mb {
				break
			}
		}
		if P.truth(m) {
			return i
		}
	}
	return -1
}

func extBytesEqual(fr *frame, args []value) value {
	return strEqV(normStr(args[0].([]value)), normStr(args[1].([]value)))
}

// unicodePred gives exact answers for ASCII and an unconstrained Boolean
// above (a sound over-approximation for "never panics" claims; flagged).
func unicodePred(name string, ascii func(c *smt.Ctx, r *smt.Term) *smt.Term, native func(rune) bool) externalFn {
	return func(fr *frame, args []value) value {
		s, ok := args[0].(sym)
		if !ok {
			return native(args[0].(rune))
		}
		c := P.ctx
		isASCII := c.Ult(s.t, c.BV(32, 0x80))
		if P.branch(isASCII) {
			return mkVal(types.Bool, ascii(c, s.t))
		}
		// above ASCII: the exact set, as a disjunction of the ranges on which the
		// library predicate holds (computed once from the real function)
		// (split by encoded length first, so that the formula only lists the ranges
		// the rune can fall into: 2-byte, 3-byte, 4-byte sequences)
		lo, hi := rune(0x10000), rune(0x10FFFF)
		if P.branch(c.Ult(s.t, c.BV(32, 0x800))) {
			lo, hi = 0x80, 0x7FF
		} else if P.branch(c.Ult(s.t, c.BV(32, 0x10000))) {
			lo, hi = 0x800, 0xFFFF
		}
		var terms []*smt.Term
		for _, r := range unicodeRanges(name, native) {
			if r[1] < lo || r[0] > hi {
				continue
			}
			a, b := r[0], r[1]
			if a < lo {
				a = lo
			}
			if b > hi {
				b = hi
			}
			terms = append(terms, c.BAnd(c.Ule(c.BV(32, uint64(a)), s.t), c.Ule(s.t, c.BV(32, uint64(b)))))
		}
		// balanced disjunction
		for len(terms) > 1 {
			var next []*smt.Term
			for i := 0; i+1 < len(terms); i += 2 {
				next = append(next, c.BOr(terms[i], terms[i+1]))
			}
			if len(terms)%2 == 1 {
				next = append(next, terms[len(terms)-1])
			}
			terms = next
		}
		if len(terms) == 0 {
			return false
		}
		return mkVal(types.Bool, terms[0])
	}
}

var unicodeRangeCache = map[string][][2]rune{}

// unicodeRanges lists the maximal rune ranges in [0x80, 0x10FFFF] on which pred holds.
func unicodeRanges(name string, pred func(rune) bool) [][2]rune {
	if rs, ok := unicodeRangeCache[name]; ok {
		return rs
	}
	var rs [][2]rune
	start := rune(-1)
	for r := rune(0x80); r <= 0x10FFFF+1; r++ {
		in := r <= 0x10FFFF && pred(r)
		if in && start < 0 {
			start = r
		}
		if !in && start >= 0 {
			rs = append(rs, [2]rune{start, r - 1})
			start = -1
		}
	}
	unicodeRangeCache[name] = rs
	return rs
}

func asciiLetter(c *smt.Ctx, r *smt.Term) *smt.Term {
	l := c.Or(r, c.BV(32, 0x20))
	return c.BAnd(c.Ule(c.BV(32, 'a'), l), c.Ule(l, c.BV(32, 'z')))
}

func asciiDigit(c *smt.Ctx, r *smt.Term) *smt.Term {
	return c.BAnd(c.Ule(c.BV(32, '0'), r), c.Ule(r, c.BV(32, '9')))
}


// ---------------------------------------------------------------- misc

func extMathRound(fr *frame, args []value) value {
	switch x := args[0].(type) {
	case float64:
		return math.Round(x)
	case sym:
		return mkVal(types.Float64, P.ctx.FPRoundAway(x.t))
	}
	panic("math.Round")
}

func extAtoi(fr *frame, args []value) value {
	if s, ok := args[0].(string); ok {
		i, e := strconv.Atoi(s)
		if e != nil {
			return tuple{i, mkError(fr.i, e.Error())}
		}
		return tuple{i, iface{}}
	}
	return fallThrough{}
}

func init() {
	delete(externals, "strconv.Atoi")
	delete(externals, "bytes.Equal")
	delete(externals, "bytes.IndexByte")
	delete(externals, "strings.IndexByte")
	delete(externals, "strings.ToLower")
	delete(externals, "time.Sleep")
	for k, v := range map[string]externalFn{
		"encoding/binary.Write": extBinaryWrite,
		"encoding/binary.Read":  extBinaryRead,
		"fmt.Sprintf":           extSprintf,
		"fmt.Sprint":            extSprint,
		"fmt.Errorf":            extErrorf,
		"fmt.Printf":            noopPrint,
		"fmt.Println":           noopPrint,
		"fmt.Print":             noopPrint,
		"fmt.Fprintf":           extFprintf,
		"fmt.Fprint":            extFprint,
		"fmt.Fprintln":          noopPrint,
		"errors.Is":             extErrorsIs,
		"sort.Slice":            extSortSlice,
		"strings.TrimSpace":     extTrimSpace,
		"strings.ToUpper":       caseMap(true),
		"strings.ToLower":       caseMap(false),
		"strings.Compare":       extStringsCompare,
		"strings.Index":         extStringsIndex,
		"bytes.IndexByte":       extBytesIndexByte,
		"strings.IndexByte":     extStringIndexByte,
		"internal/bytealg.IndexByte":       extBytesIndexByte,
		"internal/bytealg.IndexByteString": extStringIndexByte,
		"bytes.Equal":           extBytesEqual,
		"math.Round":            extMathRound,
		"strconv.Atoi":          extAtoi,
		"internal/bytealg.MakeNoZero": func(fr *frame, args []value) value {
			n := int(asInt64(args[0]))
			out := make([]value, n)
			for i := range out {
				out[i] = uint8(0)
			}
			return out
		},
		"internal/stringslite.Clone": func(fr *frame, args []value) value { return args[0] },
		"strings.Clone":              func(fr *frame, args []value) value { return args[0] },
		"(*strings.Builder).copyCheck": func(fr *frame, args []value) value { return nil },
		"(*strings.Builder).String": func(fr *frame, args []value) value {
			b := args[0].(*value)
			if b == nil {
				raise("invalid memory address or nil pointer dereference")
			}
			buf, _ := (*b).(structure)[1].([]value)
			return normStr(buf)
		},
		"unicode.IsLetter": unicodePred("IsLetter", asciiLetter, unicode.IsLetter),
		"unicode.IsDigit":  unicodePred("IsDigit", asciiDigit, unicode.IsDigit),
		"github.com/mk6i/mkdb/engine.printTable": func(fr *frame, args []value) value { return nil },
		"flag.String": func(fr *frame, args []value) value {
			v := args[1]
			return &v
		},
		"flag.Bool": func(fr *frame, args []value) value {
			v := args[1]
			return &v
		},
		"time.NewTicker": func(fr *frame, args []value) value { return newTicker(fr.i) },
		"(*time.Ticker).Stop": func(fr *frame, args []value) value {
			tickerStop(args[0].(*value))
			return nil
		},
		"time.Sleep":               func(fr *frame, args []value) value { sched.quiesce(); return nil },
		// sync.Map: an ordered map per receiver (the scheduler is cooperative, so no atomics are needed)
		"(*sync.Map).Load": func(fr *frame, args []value) value {
			if v, ok := syncMapOf(args[0]).lookup(args[1]); ok {
				return tuple{v, true}
			}
			return tuple{iface{}, false}
		},
		"(*sync.Map).Store": func(fr *frame, args []value) value { syncMapOf(args[0]).insert(args[1], args[2]); return nil },
		"(*sync.Map).LoadOrStore": func(fr *frame, args []value) value {
			m := syncMapOf(args[0])
			if v, ok := m.lookup(args[1]); ok {
				return tuple{v, true}
			}
			m.insert(args[1], args[2])
			return tuple{args[2], false}
		},
		"(*sync.Map).LoadAndDelete": func(fr *frame, args []value) value {
			m := syncMapOf(args[0])
			if v, ok := m.lookup(args[1]); ok {
				m.delete(args[1])
				return tuple{v, true}
			}
			return tuple{iface{}, false}
		},
		"(*sync.Map).Delete": func(fr *frame, args []value) value { syncMapOf(args[0]).delete(args[1]); return nil },
		"(*sync.Map).Swap": func(fr *frame, args []value) value {
			m := syncMapOf(args[0])
			old, ok := m.lookup(args[1])
			m.insert(args[1], args[2])
			if ok {
				return tuple{old, true}
			}
			return tuple{iface{}, false}
		},
		"(*sync.Map).Clear": func(fr *frame, args []value) value { delete(syncMaps, args[0].(*value)); return nil },
		"(*sync.Map).Range": func(fr *frame, args []value) value {
			m := syncMapOf(args[0])
			snapshot := append([]*oentry(nil), m.entries...)
			for _, e := range snapshot {
				if e.dead {
					continue
				}
				if !P.truth(call(fr.i, fr, token.NoPos, args[1], []value{e.key, e.val})) {
					break
				}
			}
			return nil
		},
		// sync/atomic on plain integers and pointers: loads and stores of the cell
		"sync/atomic.LoadInt32":   atomicLoad, "sync/atomic.LoadInt64": atomicLoad, "sync/atomic.LoadUint32": atomicLoad,
		"sync/atomic.LoadUint64":  atomicLoad, "sync/atomic.LoadPointer": atomicLoad, "sync/atomic.LoadUintptr": atomicLoad,
		"sync/atomic.StoreInt32":  atomicStore, "sync/atomic.StoreInt64": atomicStore, "sync/atomic.StoreUint32": atomicStore,
		"sync/atomic.StoreUint64": atomicStore, "sync/atomic.StorePointer": atomicStore, "sync/atomic.StoreUintptr": atomicStore,
		"sync/atomic.AddInt32":    atomicAdd, "sync/atomic.AddInt64": atomicAdd, "sync/atomic.AddUint32": atomicAdd, "sync/atomic.AddUint64": atomicAdd,
		"sync/atomic.CompareAndSwapInt32": atomicCAS, "sync/atomic.CompareAndSwapInt64": atomicCAS,
		"sync/atomic.CompareAndSwapUint32": atomicCAS, "sync/atomic.CompareAndSwapUint64": atomicCAS,
		"(*sync.RWMutex).Lock":    func(fr *frame, args []value) value { mutexLock(args[0].(*value)); return nil },
		"(*sync.RWMutex).Unlock":  func(fr *frame, args []value) value { mutexUnlock(args[0].(*value)); return nil },
		"(*sync.RWMutex).RLock":   func(fr *frame, args []value) value { mutexRLock(args[0].(*value)); return nil },
		"(*sync.RWMutex).RUnlock": func(fr *frame, args []value) value { mutexRUnlock(args[0].(*value)); return nil },
		"(*sync.Mutex).Lock":      func(fr *frame, args []value) value { mutexLock(args[0].(*value)); return nil },
		"(*sync.Mutex).Unlock":    func(fr *frame, args []value) value { mutexUnlock(args[0].(*value)); return nil },
	} {
		externals[k] = v
	}
}

var _ = ssa.BuilderMode(0)

// ---------------------------------------------------------------- sync.Map, sync/atomic

var syncMaps = map[*value]*omap{}

func syncMapOf(recv value) *omap {
	p := recv.(*value)
	m := syncMaps[p]
	if m == nil {
		any := types.NewInterfaceType(nil, nil)
		m = makeMap(any, any, 0).(*omap)
		syncMaps[p] = m
	}
	return m
}

func atomicLoad(fr *frame, args []value) value { return *(args[0].(*value)) }

func atomicStore(fr *frame, args []value) value {
	*(args[0].(*value)) = args[1]
	return nil
}

func atomicAdd(fr *frame, args []value) value {
	p := args[0].(*value)
	var t types.Type
	switch (*p).(type) {
	case int32:
		t = types.Typ[types.Int32]
	case int64:
		t = types.Typ[types.Int64]
	case uint32:
		t = types.Typ[types.Uint32]
	default:
		t = types.Typ[types.Uint64]
	}
	*p = binop(token.ADD, t, *p, args[1])
	return *p
}

func atomicCAS(fr *frame, args []value) value {
	p := args[0].(*value)
	if P.truth(scalarEqV(*p, args[1])) {
		*p = args[2]
		return true
	}
	return false
}
