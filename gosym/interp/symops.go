package interp

// Symbolic versions of the scalar operators, conversions, equality and strings.

import (
	"os"
	"fmt"
	"go/token"
	"go/types"
	"math"

	"gosym/smt"
)

func isSym(v value) bool {
	switch v.(type) {
	case sym, symstr:
		return true
	}
	return false
}

func kindOf(v value) (types.BasicKind, bool) {
	switch v := v.(type) {
	case sym:
		return v.k, true
	case bool:
		return types.Bool, true
	case int:
		return types.Int, true
	case int8:
		return types.Int8, true
	case int16:
		return types.Int16, true
	case int32:
		return types.Int32, true
	case int64:
		return types.Int64, true
	case uint:
		return types.Uint, true
	case uint8:
		return types.Uint8, true
	case uint16:
		return types.Uint16, true
	case uint32:
		return types.Uint32, true
	case uint64:
		return types.Uint64, true
	case uintptr:
		return types.Uintptr, true
	case float64:
		return types.Float64, true
	}
	return 0, false
}

// termOf lifts a scalar value (concrete or symbolic) to a term.
func termOf(v value) *smt.Term {
	c := P.ctx
	switch v := v.(type) {
	case sym:
		return v.t
	case bool:
		return c.Bool(v)
	case int:
		return c.BV(64, uint64(v))
	case int8:
		return c.BV(8, uint64(v))
	case int16:
		return c.BV(16, uint64(v))
	case int32:
		return c.BV(32, uint64(v))
	case int64:
		return c.BV(64, uint64(v))
	case uint:
		return c.BV(64, uint64(v))
	case uint8:
		return c.BV(8, uint64(v))
	case uint16:
		return c.BV(16, uint64(v))
	case uint32:
		return c.BV(32, uint64(v))
	case uint64:
		return c.BV(64, v)
	case uintptr:
		return c.BV(64, uint64(v))
	case float64:
		return c.F64(v)
	}
	panic(fmt.Sprintf("engine: termOf(%T)", v))
}

// mkVal boxes term t of kind k, folding constants back to concrete Go values.
func mkVal(k types.BasicKind, t *smt.Term) value {
	if t.IsConst() {
		if k == types.Float64 {
			return math.Float64frombits(t.Val)
		}
		return concreteOfKind(k, t.Val)
	}
	return sym{k, t}
}

var debugSites = os.Getenv("VERIF_DEBUG") != ""

func raise(msg string) {
	P.notePanicSite()
	if debugSites {
		msg += " [" + P.site() + "]"
	}
	panic(rtPanic{msg})
}

func symBinop(op token.Token, x, y value) value {
	c := P.ctx
	// strings
	if isStr(x) || isStr(y) {
		return strBinop(op, x, y)
	}
	kx, okx := kindOf(x)
	ky, oky := kindOf(y)
	if !okx || !oky {
		panic(fmt.Sprintf("engine: symbolic binop %s on %T, %T", op, x, y))
	}
	tx, ty := termOf(x), termOf(y)
	signed := isSignedKind(kx)

	if kx == types.Float64 {
		switch op {
		case token.ADD:
			return mkVal(kx, c.FPAdd(tx, ty))
		case token.SUB:
			return mkVal(kx, c.FPSub(tx, ty))
		case token.MUL:
			return mkVal(kx, c.FPMul(tx, ty))
		case token.QUO:
			return mkVal(kx, c.FPDiv(tx, ty))
		case token.EQL:
			return mkVal(types.Bool, c.FPEq(tx, ty))
		case token.NEQ:
			return mkVal(types.Bool, c.BNot(c.FPEq(tx, ty)))
		case token.LSS:
			return mkVal(types.Bool, c.FPLt(tx, ty))
		case token.LEQ:
			return mkVal(types.Bool, c.FPLe(tx, ty))
		case token.GTR:
			return mkVal(types.Bool, c.FPLt(ty, tx))
		case token.GEQ:
			return mkVal(types.Bool, c.FPLe(ty, tx))
		}
		panic(fmt.Sprintf("engine: float op %s", op))
	}

	switch op {
	case token.SHL, token.SHR:
		// shift count: any integer kind; negative signed count panics
		if isSignedKind(ky) {
			neg := c.Slt(ty, c.BV(ty.W, 0))
			if P.branch(neg) {
				raise("negative shift amount")
			}
		}
		w := tx.W
		var cnt *smt.Term
		var big *smt.Term // count >= w although not representable after truncation
		switch {
		case ty.W == w:
			cnt = ty
		case ty.W < w:
			cnt = c.ZExt(ty, w)
		default:
			cnt = c.Extract(ty, w-1, 0)
			big = c.Ule(c.BV(ty.W, uint64(w)), ty)
		}
		var r *smt.Term
		if op == token.SHL {
			r = c.Shl(tx, cnt)
			if big != nil {
				r = c.Ite(big, c.BV(w, 0), r)
			}
		} else if signed {
			r = c.AShr(tx, cnt)
			if big != nil {
				r = c.Ite(big, c.AShr(tx, c.BV(w, uint64(w-1))), r)
			}
		} else {
			r = c.LShr(tx, cnt)
			if big != nil {
				r = c.Ite(big, c.BV(w, 0), r)
			}
		}
		return mkVal(kx, r)
	}

	if kx != ky {
		panic(fmt.Sprintf("engine: binop %s kinds %v vs %v", op, kx, ky))
	}
	if kx == types.Bool {
		switch op {
		case token.EQL:
			return mkVal(types.Bool, c.Eq(tx, ty))
		case token.NEQ:
			return mkVal(types.Bool, c.BNot(c.Eq(tx, ty)))
		case token.AND, token.LAND:
			return mkVal(types.Bool, c.BAnd(tx, ty))
		case token.OR, token.LOR:
			return mkVal(types.Bool, c.BOr(tx, ty))
		}
		panic(fmt.Sprintf("engine: bool op %s", op))
	}
	switch op {
	case token.ADD:
		return mkVal(kx, c.Add(tx, ty))
	case token.SUB:
		return mkVal(kx, c.Sub(tx, ty))
	case token.MUL:
		return mkVal(kx, c.Mul(tx, ty))
	case token.QUO, token.REM:
		if P.branch(c.Eq(ty, c.BV(ty.W, 0))) {
			raise("integer divide by zero")
		}
		switch {
		case op == token.QUO && signed:
			return mkVal(kx, c.SDiv(tx, ty))
		case op == token.QUO:
			return mkVal(kx, c.UDiv(tx, ty))
		case signed:
			return mkVal(kx, c.SRem(tx, ty))
		default:
			return mkVal(kx, c.URem(tx, ty))
		}
	case token.AND:
		return mkVal(kx, c.And(tx, ty))
	case token.OR:
		return mkVal(kx, c.Or(tx, ty))
	case token.XOR:
		return mkVal(kx, c.Xor(tx, ty))
	case token.AND_NOT:
		return mkVal(kx, c.And(tx, c.Not(ty)))
	case token.EQL:
		return mkVal(types.Bool, c.Eq(tx, ty))
	case token.NEQ:
		return mkVal(types.Bool, c.BNot(c.Eq(tx, ty)))
	case token.LSS:
		if signed {
			return mkVal(types.Bool, c.Slt(tx, ty))
		}
		return mkVal(types.Bool, c.Ult(tx, ty))
	case token.LEQ:
		if signed {
			return mkVal(types.Bool, c.Sle(tx, ty))
		}
		return mkVal(types.Bool, c.Ule(tx, ty))
	case token.GTR:
		if signed {
			return mkVal(types.Bool, c.Slt(ty, tx))
		}
		return mkVal(types.Bool, c.Ult(ty, tx))
	case token.GEQ:
		if signed {
			return mkVal(types.Bool, c.Sle(ty, tx))
		}
		return mkVal(types.Bool, c.Ule(ty, tx))
	}
	panic(fmt.Sprintf("engine: symbolic binop %s", op))
}

func symUnop(op token.Token, x sym) value {
	c := P.ctx
	switch op {
	case token.SUB:
		if x.k == types.Float64 {
			return mkVal(x.k, c.FPNeg(x.t))
		}
		return mkVal(x.k, c.Neg(x.t))
	case token.NOT:
		return mkVal(types.Bool, c.BNot(x.t))
	case token.XOR:
		return mkVal(x.k, c.Not(x.t))
	}
	panic(fmt.Sprintf("engine: symbolic unop %s", op))
}

// symConvScalar converts symbolic scalar x to basic kind dst.
func symConvScalar(dst types.BasicKind, x sym) value {
	c := P.ctx
	if dst == types.Float64 || dst == types.Float32 {
		if dst == types.Float32 {
			panic(pathEnd{"unsupported", "float32 conversion of a symbolic value"})
		}
		if x.k == types.Float64 {
			return x
		}
		if isSignedKind(x.k) {
			return mkVal(types.Float64, c.FPFromSBV(x.t))
		}
		return mkVal(types.Float64, c.FPFromUBV(x.t))
	}
	w, ok := kindWidth[dst]
	if !ok || w <= 0 {
		panic(fmt.Sprintf("engine: symbolic conversion to kind %v", dst))
	}
	if x.k == types.Float64 {
		if isSignedKind(dst) {
			return mkVal(dst, c.FPToSBV(x.t, w))
		}
		return mkVal(dst, c.FPToUBV(x.t, w))
	}
	sw := x.t.W
	switch {
	case w == sw:
		return mkVal(dst, x.t)
	case w < sw:
		return mkVal(dst, c.Extract(x.t, w-1, 0))
	case isSignedKind(x.k):
		return mkVal(dst, c.SExt(x.t, w))
	default:
		return mkVal(dst, c.ZExt(x.t, w))
	}
}

// ---------------------------------------------------------------- value-level Booleans

func andV(a, b value) value {
	if ab, ok := a.(bool); ok {
		if !ab {
			return false
		}
		return b
	}
	if bb, ok := b.(bool); ok {
		if !bb {
			return false
		}
		return a
	}
	return mkVal(types.Bool, P.ctx.BAnd(a.(sym).t, b.(sym).t))
}

func orV(a, b value) value {
	if ab, ok := a.(bool); ok {
		if ab {
			return true
		}
		return b
	}
	if bb, ok := b.(bool); ok {
		if bb {
			return true
		}
		return a
	}
	return mkVal(types.Bool, P.ctx.BOr(a.(sym).t, b.(sym).t))
}

func notV(a value) value {
	if ab, ok := a.(bool); ok {
		return !ab
	}
	return mkVal(types.Bool, P.ctx.BNot(a.(sym).t))
}

// ---------------------------------------------------------------- strings

func isStr(v value) bool {
	switch v.(type) {
	case string, symstr, opaque:
		return true
	}
	return false
}

// strBytes views a string value as a slice of byte values (not to be modified).
func strBytes(v value) []value {
	switch v := v.(type) {
	case string:
		out := make([]value, len(v))
		for i := 0; i < len(v); i++ {
			out[i] = v[i]
		}
		return out
	case symstr:
		return v.b
	case opaque:
		panic(pathEnd{"unsupported", "content of an untracked string is needed (" + v.what + ") at " + P.site()})
	}
	panic(fmt.Sprintf("engine: strBytes(%T)", v))
}

func strLen(v value) int {
	switch v := v.(type) {
	case string:
		return len(v)
	case symstr:
		return len(v.b)
	case opaque:
		panic(pathEnd{"unsupported", "length of an untracked string is needed (" + v.what + ") at " + P.site()})
	}
	panic(fmt.Sprintf("engine: strLen(%T)", v))
}

// normStr makes a string value from byte values: a Go string when all bytes are concrete.
func normStr(b []value) value {
	allc := true
	for _, e := range b {
		if _, ok := e.(uint8); !ok {
			allc = false
			break
		}
	}
	if allc {
		bs := make([]byte, len(b))
		for i, e := range b {
			bs[i] = e.(uint8)
		}
		return string(bs)
	}
	cp := make([]value, len(b))
	copy(cp, b)
	return symstr{cp}
}

func strEqV(x, y value) value {
	if xs, ok := x.(string); ok {
		if ys, ok := y.(string); ok {
			return xs == ys
		}
	}
	bx, by := strBytes(x), strBytes(y)
	if len(bx) != len(by) {
		return false
	}
	var r value = true
	for i := range bx {
		r = andV(r, scalarEqV(bx[i], by[i]))
		if rb, ok := r.(bool); ok && !rb {
			return false
		}
	}
	return r
}

func scalarEqV(x, y value) value {
	if !isSym(x) && !isSym(y) {
		return x == y
	}
	return mkVal(types.Bool, P.ctx.Eq(termOf(x), termOf(y)))
}

// strLessV: x < y (or <= when orEq) in Go's byte-wise order.
func strLessV(x, y value, orEq bool) value {
	c := P.ctx
	bx, by := strBytes(x), strBytes(y)
	n := len(bx)
	if len(by) < n {
		n = len(by)
	}
	// result when all n common bytes are equal
	var tail *smt.Term
	if orEq {
		tail = c.Bool(len(bx) <= len(by))
	} else {
		tail = c.Bool(len(bx) < len(by))
	}
	r := tail
	for i := n - 1; i >= 0; i-- {
		a, b := termOf(bx[i]), termOf(by[i])
		r = c.Ite(c.Ult(a, b), c.Bool(true), c.Ite(c.Eq(a, b), r, c.Bool(false)))
	}
	return mkVal(types.Bool, r)
}

func strBinop(op token.Token, x, y value) value {
	switch op {
	case token.ADD:
		bx, by := strBytes(x), strBytes(y)
		out := make([]value, 0, len(bx)+len(by))
		out = append(out, bx...)
		out = append(out, by...)
		return normStr(out)
	case token.EQL:
		return strEqV(x, y)
	case token.NEQ:
		return notV(strEqV(x, y))
	case token.LSS:
		return strLessV(x, y, false)
	case token.LEQ:
		return strLessV(x, y, true)
	case token.GTR:
		return strLessV(y, x, false)
	case token.GEQ:
		return strLessV(y, x, true)
	}
	panic(fmt.Sprintf("engine: string op %s", op))
}

// asciiByte forks on b < 0x80 and ends the path as unsupported on the other side.
func asciiOnly(b value, what string) {
	s, ok := b.(sym)
	if !ok {
		return
	}
	c := P.ctx
	var lim *smt.Term
	lim = c.Ult(s.t, c.BV(s.t.W, 0x80))
	if !P.branch(lim) {
		panic(pathEnd{"unsupported", "non-ASCII symbolic " + what + " at " + P.site()})
	}
}

// equalsV is Go's == for values of static type t; the result is bool or a symbolic Bool.
func equalsV(t types.Type, x, y value) value {
	switch x := x.(type) {
	case sym:
		return scalarEqV(x, y)
	case string, symstr:
		return strEqV(x, y)
	case structure:
		ys := y.(structure)
		tStruct := t.Underlying().(*types.Struct)
		var r value = true
		for i, n := 0, tStruct.NumFields(); i < n; i++ {
			f := tStruct.Field(i)
			if f.Name() == "_" {
				continue
			}
			r = andV(r, equalsV(f.Type(), x[i], ys[i]))
			if rb, ok := r.(bool); ok && !rb {
				return false
			}
		}
		return r
	case array:
		ya := y.(array)
		tElt := t.Underlying().(*types.Array).Elem()
		var r value = true
		for i := range x {
			r = andV(r, equalsV(tElt, x[i], ya[i]))
			if rb, ok := r.(bool); ok && !rb {
				return false
			}
		}
		return r
	case iface:
		yi := y.(iface)
		if !sameType(x.t, yi.t) {
			return false
		}
		if x.t == nil {
			return true
		}
		if !types.Comparable(x.t) {
			raise("comparing uncomparable type " + x.t.String())
		}
		return equalsV(x.t, x.v, yi.v)
	}
	if isSym(y) {
		switch y := y.(type) {
		case sym:
			return scalarEqV(x, y)
		case symstr:
			return strEqV(x, y)
		}
	}
	return equals(t, x, y)
}
