package interp

// gosym: path state, forking, solver interaction and the verif* harness API.
// One worker process explores one path at a time; P is that path.

import (
	"runtime/debug"
	"fmt"
	"go/token"
	"go/types"
	"os"
	"sort"
	"strings"
	"time"

	"golang.org/x/tools/go/ssa"

	"gosym/smt"
)

// sym is a symbolic scalar: Bool, sized integers, or Float64.
type sym struct {
	k types.BasicKind
	t *smt.Term
}

// symstr is a string of concrete length whose bytes may be symbolic
// (each element is uint8 or sym{Uint8}).
type symstr struct {
	b []value
}

// opaque is a value whose content is not tracked (result of a map lookup with
// symbolic key into non-scalar values, flowing only into formatting stubs).
type opaque struct {
	what string
}

// pathEnd terminates the current path (engine control flow, never a verdict by itself).
type pathEnd struct {
	status string
	detail string
}

// rtPanic is a Go run-time error raised by target code (index, nil, type assertion …).
type rtPanic struct {
	msg string
}

func (p rtPanic) Error() string {
	switch p.msg {
	case "assignment to entry in nil map", "close of closed channel", "close of nil channel", "send on closed channel":
		return p.msg // runtime.plainError: no "runtime error: " prefix
	}
	return "runtime error: " + p.msg
}

type Violation struct {
	Harness   string            `json:"harness"`
	Kind      string            `json:"kind"` // assert | panic | deadlock | budget
	ID        string            `json:"id"`   // assertion id or panic site
	Detail    string            `json:"detail"`
	Inputs    map[string]uint64 `json:"inputs"`
	Choices   []int             `json:"choices"`
	Tags      map[string]string `json:"tags"`
	Decisions []int64           `json:"decisions"`
	ModelOK   bool              `json:"model_ok"`
}

type PathResult struct {
	Status       string       `json:"status"`
	Detail       string       `json:"detail,omitempty"`
	Decisions    []int64      `json:"decisions"`
	Siblings     [][]int64    `json:"siblings"`
	Violations   []Violation  `json:"violations,omitempty"`
	Reach        []string     `json:"reach,omitempty"`
	Asserts      map[string]int `json:"asserts,omitempty"` // assertion id -> times checked
	Funcs        []string     `json:"funcs,omitempty"`
	Stubs        []string     `json:"stubs,omitempty"`
	Inconclusive []string     `json:"inconclusive,omitempty"`
	Observed     []string     `json:"observed,omitempty"`
	Tags         map[string]string `json:"tags,omitempty"`
	Instrs       int64        `json:"instrs"`
	Forks        int          `json:"forks"`         // solver-decided decision points beyond the prefix
	Queries      int          `json:"queries"`
	QSat         int          `json:"qsat"`
	QUnsat       int          `json:"qunsat"`
	QUnknown     int          `json:"qunknown"`
	QSimplified  int          `json:"qsimplified"`   // obligations closed without a solver call
	QCross       int          `json:"qcross"`        // queries cross-checked with a 2nd solver
	SolverMs     float64      `json:"solver_ms"`
	WallMs       float64      `json:"wall_ms"`
	SampleInputs map[string]uint64 `json:"sample_inputs,omitempty"`
	Choices      []int        `json:"choices,omitempty"`
	NInputs      int          `json:"ninputs"`
	ForkSites    map[string]int `json:"fork_sites,omitempty"`
}

type Job struct {
	Harness  string            `json:"harness"`
	Prefix   []int64           `json:"prefix"`
	Params   map[string]int    `json:"params"`
	Concrete bool              `json:"concrete"` // run with concrete inputs (differential validation / replay in engine)
	Inputs   map[string]uint64 `json:"inputs"`
	Choices  []int             `json:"choices"`
	Budget   int64             `json:"budget"`
	Seed     int64             `json:"seed"`
	CrossEvery int             `json:"cross_every"`
	WantModel bool             `json:"want_model"`
}

type inputDecl struct {
	name string
	v    *smt.Term
}

type path struct {
	job    *Job
	ctx    *smt.Ctx
	sol    *smt.Solver
	fpMode bool
	pc     []*smt.Term

	dec      []int64
	siblings [][]int64
	forks    int

	inputs    []inputDecl
	nameCount map[string]int
	smtNames  map[string]string
	choices   []int
	choiceIdx int

	instrs int64
	budget int64

	violations   []Violation
	reach        map[string]bool
	asserts      map[string]int
	funcs        map[*ssa.Function]bool
	stubs        map[string]bool
	inconclusive []string
	observed     []string
	tags         map[string]string
	qsimplified  int
	qcross       int
	harness      string

	curInstr ssa.Instruction
	curFn    *ssa.Function
	lastMkdbFrame *frame
	mapOrderPred value // harness closure func(any) bool selecting map entries whose order is a choice
	forkSites map[string]int
	panicAt   string
	failedIDs map[string]bool
	watchCB    value
	watchNames []string
	watchHit   map[*ssa.Function]bool
	inWatch    bool

	q0, qs0, qu0, qk0 int
	t0                time.Duration

	started   time.Time
	known     map[*smt.Term]bool // conditions asserted on this path (and their negations)
	knownHits int

	doms     map[string]*domain // finite value sets of "simple" variables (cheap decisions)
	termVars map[int][]string
	cheap    int
	acc      map[string]*smt.Term // verifCheck obligations accumulated per id
	accOrder []string
	accSite  map[string]string
	mdl      map[string]uint64 // an assignment known to satisfy pc (nil: none known)
	mdlSaved int               // queries avoided thanks to mdl
}

// P is the path being explored by this worker process.
var P *path

// Solvers kept alive across paths.
var (
	mainSolver  *smt.Solver
	fpSolver    *smt.Solver
	crossSolver *smt.Solver
	SolverKind  = "z3"
	SolverTimeoutMs = 20000
)

func getMainSolver() *smt.Solver {
	if mainSolver != nil && mainSolver.Dead() {
		mainSolver.Close()
		mainSolver = nil
	}
	if mainSolver == nil {
		s, err := smt.StartSolver(SolverKind, SolverTimeoutMs)
		if err != nil {
			panic(fmt.Sprintf("engine: cannot start solver: %v", err))
		}
		if lf := os.Getenv("GOSYM_SMTLOG"); lf != "" {
			f, _ := os.OpenFile(fmt.Sprintf("%s.%d", lf, os.Getpid()), os.O_CREATE|os.O_WRONLY|os.O_APPEND, 0644)
			s.Log = f
		}
		mainSolver = s
	}
	return mainSolver
}

func getFPSolver() *smt.Solver {
	if fpSolver != nil && fpSolver.Dead() {
		fpSolver.Close()
		fpSolver = nil
	}
	if fpSolver == nil {
		s, err := smt.StartSolver("cvc5", SolverTimeoutMs*3)
		if err != nil {
			panic(fmt.Sprintf("engine: cannot start cvc5: %v", err))
		}
		fpSolver = s
	}
	return fpSolver
}

func getCrossSolver() *smt.Solver {
	if crossSolver != nil && crossSolver.Dead() {
		crossSolver.Close()
		crossSolver = nil
	}
	if crossSolver == nil {
		kind := "cvc5"
		s, err := smt.StartSolver(kind, SolverTimeoutMs)
		if err != nil {
			panic(fmt.Sprintf("engine: cannot start cross solver: %v", err))
		}
		crossSolver = s
	}
	return crossSolver
}

func newPath(job *Job) *path {
	p := &path{
		job: job, ctx: smt.NewCtx(), harness: job.Harness,
		nameCount: map[string]int{}, smtNames: map[string]string{}, reach: map[string]bool{}, asserts: map[string]int{},
		funcs: map[*ssa.Function]bool{}, stubs: map[string]bool{}, tags: map[string]string{},
		budget: job.Budget, started: time.Now(),
	}
	if p.budget == 0 {
		p.budget = 50_000_000
	}
	if !job.Concrete {
		p.sol = getMainSolver()
		p.sol.Reset()
		p.q0, p.qs0, p.qu0, p.qk0, p.t0 = p.sol.Queries, p.sol.NSat, p.sol.NUnsat, p.sol.NUnknown, p.sol.Time
	}
	return p
}

func (p *path) note(msg string) {
	for _, m := range p.inconclusive {
		if m == msg {
			return
		}
	}
	p.inconclusive = append(p.inconclusive, msg)
}

func (p *path) site() string {
	if p.curInstr == nil || p.curFn == nil {
		return "?"
	}
	pos := p.curFn.Prog.Fset.Position(p.curInstr.Pos())
	file := pos.Filename
	if i := strings.LastIndex(file, "/"); i >= 0 {
		file = file[i+1:]
	}
	return fmt.Sprintf("%s@%s:%d", p.curFn.String(), file, pos.Line)
}

// domain is the exact set of values a variable can still take, maintained as
// long as every constraint mentioning the variable mentions no other variable.
type domain struct {
	vals []uint64
	w    int
}

// varsOf lists the variables of t (memoised; nil with ok=false when there are more than 2).
func (p *path) varsOf(t *smt.Term) []string {
	if p.termVars == nil {
		p.termVars = map[int][]string{}
	}
	if v, ok := p.termVars[t.ID]; ok {
		return v
	}
	var out []string
	switch t.Op {
	case smt.OpVar:
		out = []string{t.Name}
	case smt.OpConst:
	default:
		for _, a := range t.Args {
			for _, n := range p.varsOf(a) {
				dup := false
				for _, o := range out {
					if o == n {
						dup = true
					}
				}
				if !dup {
					out = append(out, n)
				}
			}
		}
	}
	p.termVars[t.ID] = out
	return out
}

// noteConstraint keeps the finite domains consistent with a newly asserted t.
func (p *path) noteConstraint(t *smt.Term) {
	if len(p.doms) == 0 {
		return
	}
	vs := p.varsOf(t)
	if len(vs) == 1 {
		if d := p.doms[vs[0]]; d != nil {
			keep := d.vals[:0:0]
			env := map[string]uint64{}
			for _, v := range d.vals {
				env[vs[0]] = v
				if smt.Eval(t, env, map[int]uint64{}) != 0 {
					keep = append(keep, v)
				}
			}
			d.vals = keep
		}
		return
	}
	for _, n := range vs {
		delete(p.doms, n) // the variable is now related to others: no longer "simple"
	}
}

// cheapSides decides, without the solver, which sides of cond are feasible when
// cond mentions exactly one variable with a tracked finite domain.
func (p *path) cheapSides(cond *smt.Term) (canTrue, canFalse, ok bool) {
	if len(p.doms) == 0 {
		return false, false, false
	}
	vs := p.varsOf(cond)
	if len(vs) != 1 {
		return false, false, false
	}
	d := p.doms[vs[0]]
	if d == nil {
		return false, false, false
	}
	env := map[string]uint64{}
	for _, v := range d.vals {
		env[vs[0]] = v
		if smt.Eval(cond, env, map[int]uint64{}) != 0 {
			canTrue = true
		} else {
			canFalse = true
		}
		if canTrue && canFalse {
			break
		}
	}
	p.cheap++
	return canTrue, canFalse, true
}

// assertPC adds t to the path condition.
func (p *path) assertPC(t *smt.Term) {
	if t.IsTrue() {
		return
	}
	p.noteConstraint(t)
	p.pc = append(p.pc, t)
	// what has been asserted holds for the rest of the path: a later branch on the
	// same condition (a loop that re-tests it) needs neither a decision nor a query
	if p.known == nil {
		p.known = map[*smt.Term]bool{}
	}
	p.known[t] = true
	p.known[p.ctx.BNot(t)] = false
	if p.mdl != nil && smt.Eval(t, p.mdl, map[int]uint64{}) == 0 {
		p.mdl = nil
	}
	if t.HasFP && !p.fpMode {
		p.switchToFP()
		return // switchToFP re-asserted the whole pc
	}
	p.sol.Assert(t)
}

func (p *path) switchToFP() {
	p.fpMode = true
	s := getFPSolver()
	s.Reset()
	p.sol = s
	for _, c := range p.pc {
		s.Assert(c)
	}
}

// check: is pc ∧ (¬)t satisfiable?
func (p *path) check(t *smt.Term, negate bool) smt.Result {
	if t != nil && t.HasFP && !p.fpMode {
		p.switchToFP()
	}
	r := p.sol.Check(t, negate)
	if r == smt.Error {
		p.note("solver error: " + p.sol.LastErr)
		return smt.Unknown
	}
	if r != smt.Unknown && !p.fpMode && p.job.CrossEvery > 0 && (p.sol.Queries+int(p.job.Seed))%p.job.CrossEvery == 0 {
		p.crossCheck(t, negate, r)
	}
	return r
}

func (p *path) crossCheck(t *smt.Term, negate bool, want smt.Result) {
	cs := getCrossSolver()
	cs.Reset()
	for _, c := range p.pc {
		cs.Assert(c)
	}
	got := cs.Check(t, negate)
	p.qcross++
	if got != want && got != smt.Unknown && got != smt.Error {
		panic(fmt.Sprintf("engine: solver disagreement (%s says %v, %s says %v) at %s", p.sol.Kind, want, cs.Kind, got, p.site()))
	}
}

// decide is the single forking primitive. Alternative i carries constraint
// conds[i] (nil = unconstrained). vals[i] is what is recorded in the decision
// vector (nil: the index itself). It returns the chosen alternative.
func (p *path) decide(conds []*smt.Term, vals []int64) int {
	n := len(conds)
	val := func(i int) int64 {
		if vals != nil {
			return vals[i]
		}
		return int64(i)
	}
	if len(p.dec) < len(p.job.Prefix) {
		want := p.job.Prefix[len(p.dec)]
		for i := 0; i < n; i++ {
			if val(i) == want {
				p.dec = append(p.dec, want)
				if conds[i] != nil {
					p.assertPC(conds[i])
				}
				return i
			}
		}
		panic(fmt.Sprintf("engine: replay divergence at decision %d (want %d among %d alternatives) at %s", len(p.dec), want, n, p.site()))
	}
	var feasible []int
	if n == 2 && conds[0] != nil && conds[1] != nil {
		// binary branch: the second query is skipped when the first is unsat
		switch {
		case conds[0].IsFalse():
			feasible = []int{1}
		case conds[1].IsFalse():
			feasible = []int{0}
		case func() bool {
			ct, cf, ok := p.cheapSides(conds[0])
			if !ok {
				return false
			}
			switch {
			case ct && cf:
				feasible = []int{0, 1}
			case ct:
				feasible = []int{0}
			case cf:
				feasible = []int{1}
			}
			if ct {
				p.mdl = nil // the cached model may sit on the other side; cheap to lose
			}
			return true
		}():
		case p.mdl != nil:
			// the known model witnesses one side for free
			side := 1
			if smt.Eval(conds[0], p.mdl, map[int]uint64{}) != 0 {
				side = 0
			}
			p.mdlSaved++
			other := 1 - side
			switch r := p.check(conds[other], false); r {
			case smt.Unsat:
				feasible = []int{side}
			default:
				if r == smt.Unknown {
					p.note("unknown feasibility at " + p.site())
				}
				feasible = []int{0, 1}
				if other == 0 {
					// we continue on side 0: adopt the solver's model for it
					p.mdl = p.fetchModel(r == smt.Sat)
				}
			}
		default:
			r0 := p.check(conds[0], false)
			if r0 == smt.Unsat {
				feasible = []int{1}
			} else {
				if r0 == smt.Unknown {
					p.note("unknown feasibility at " + p.site())
				}
				m0 := p.fetchModel(r0 == smt.Sat)
				r1 := p.check(conds[1], false)
				switch r1 {
				case smt.Unsat:
					feasible = []int{0}
				case smt.Unknown:
					p.note("unknown feasibility at " + p.site())
					feasible = []int{0, 1}
				default:
					feasible = []int{0, 1}
				}
				p.mdl = m0
			}
		}
	} else {
		for i := 0; i < n; i++ {
			c := conds[i]
			switch {
			case c == nil || c.IsTrue():
				feasible = append(feasible, i)
			case c.IsFalse():
			default:
				if ct, _, ok := p.cheapSides(c); ok {
					if ct {
						feasible = append(feasible, i)
					}
					continue
				}
				r := p.check(c, false)
				if r == smt.Unknown {
					p.note("unknown feasibility at " + p.site())
				}
				if r != smt.Unsat {
					feasible = append(feasible, i)
				}
			}
		}
		if len(feasible) > 1 || (len(feasible) == 1 && feasible[0] != 0) {
			p.mdl = nil
		}
	}
	if len(feasible) == 0 {
		// the path condition itself is unsatisfiable or every side unknown
		panic(pathEnd{"infeasible", "no feasible alternative at " + p.site()})
	}
	if len(feasible) > 1 {
		p.forks++
		if p.forkSites == nil {
			p.forkSites = map[string]int{}
		}
		p.forkSites[p.site()]++
	}
	chosen := feasible[0]
	for _, o := range feasible[1:] {
		sib := make([]int64, len(p.dec)+1)
		copy(sib, p.dec)
		sib[len(p.dec)] = val(o)
		p.siblings = append(p.siblings, sib)
	}
	p.dec = append(p.dec, val(chosen))
	if conds[chosen] != nil {
		p.assertPC(conds[chosen])
	}
	return chosen
}

// fetchModel reads the model of the last (sat) query, as a total assignment.
func (p *path) fetchModel(sat bool) map[string]uint64 {
	if !sat || len(p.ctx.Vars) > 400 {
		return nil
	}
	m, err := p.sol.Model(p.ctx.Vars)
	if err != nil {
		return nil
	}
	return m
}

// branch forks on a symbolic Boolean.
func (p *path) branch(t *smt.Term) bool {
	if t.IsTrue() {
		return true
	}
	if t.IsFalse() {
		return false
	}
	if v, ok := p.known[t]; ok {
		p.knownHits++
		return v
	}
	return p.decide([]*smt.Term{t, p.ctx.BNot(t)}, nil) == 0
}

func (p *path) truth(v value) bool {
	switch v := v.(type) {
	case bool:
		return v
	case sym:
		return p.branch(v.t)
	}
	panic(fmt.Sprintf("engine: truth of %T", v))
}

const defaultConcretizeCap = 16

// concretize turns a symbolic integer into a concrete one by forking over its
// feasible values (at most cap of them; more is reported as inconclusive).
func (p *path) concretize(s sym, why string) uint64 {
	return p.concretizeCap(s, why, 0)
}

// concretizeCap is concretize with an explicit cap on the number of values (0 = the default / job parameter).
func (p *path) concretizeCap(s sym, why string, capOverride int) uint64 {
	if s.t.IsConst() {
		return s.t.Val
	}
	if len(p.dec) < len(p.job.Prefix) {
		v := uint64(p.job.Prefix[len(p.dec)])
		p.dec = append(p.dec, int64(v))
		p.assertPC(p.ctx.Eq(s.t, p.ctx.BV(s.t.W, v)))
		return v
	}
	cap := defaultConcretizeCap
	if c, ok := p.job.Params["concretize_cap"]; ok {
		cap = c
	}
	if capOverride > 0 {
		cap = capOverride
	}
	var vals []uint64
	excl := p.ctx.Bool(true)
	for len(vals) <= cap {
		r := p.check(excl, false)
		if r != smt.Sat {
			if r == smt.Unknown {
				p.note("unknown while concretizing at " + p.site())
			}
			break
		}
		m, err := p.valueOf(s.t)
		if err != nil {
			p.note("model error while concretizing: " + err.Error())
			break
		}
		vals = append(vals, m)
		excl = p.ctx.BAnd(excl, p.ctx.BNot(p.ctx.Eq(s.t, p.ctx.BV(s.t.W, m))))
	}
	if len(vals) == 0 {
		panic(pathEnd{"infeasible", "concretize: no value at " + p.site()})
	}
	if len(vals) > cap {
		p.note(fmt.Sprintf("concretization cap %d exceeded (%s) at %s", cap, why, p.site()))
		vals = vals[:cap]
	}
	sort.Slice(vals, func(i, j int) bool { return vals[i] < vals[j] })
	if len(vals) > 1 {
		p.forks++
	}
	for _, o := range vals[1:] {
		sib := make([]int64, len(p.dec)+1)
		copy(sib, p.dec)
		sib[len(p.dec)] = int64(o)
		p.siblings = append(p.siblings, sib)
	}
	v := vals[0]
	p.dec = append(p.dec, int64(v))
	p.assertPC(p.ctx.Eq(s.t, p.ctx.BV(s.t.W, v)))
	return v
}

// valueOf returns the value of t in the solver's current model.
func (p *path) valueOf(t *smt.Term) (uint64, error) {
	if t.IsConst() {
		return t.Val, nil
	}
	// evaluate under the model of the input variables
	m, err := p.sol.Model(p.ctx.Vars)
	if err != nil {
		return 0, err
	}
	return smt.Eval(t, m, map[int]uint64{}), nil
}

func (p *path) model() (map[string]uint64, bool) {
	if p.job.Concrete {
		return p.job.Inputs, true
	}
	r := p.check(nil, false)
	if r != smt.Sat {
		return nil, false
	}
	m, err := p.sol.Model(p.ctx.Vars)
	if err != nil {
		p.note("model error: " + err.Error())
		return nil, false
	}
	out := map[string]uint64{}
	for _, in := range p.inputs {
		out[in.name] = m[in.v.Name]
	}
	return out, true
}

// assertFalse records a concretely false assertion once per id; it reports
// whether the path should stop (too many distinct failures).
func (p *path) assertFalse(id string) bool {
	if p.failedIDs == nil {
		p.failedIDs = map[string]bool{}
	}
	if !p.failedIDs[id] {
		p.failedIDs[id] = true
		m, mok := p.model()
		p.addViolation("assert", id, "assertion false on this path at "+p.site(), m, mok)
	}
	return len(p.failedIDs) > 40
}

func (p *path) addViolation(kind, id, detail string, model map[string]uint64, ok bool) {
	tags := map[string]string{}
	for k, v := range p.tags {
		tags[k] = v
	}
	p.violations = append(p.violations, Violation{
		Harness: p.harness, Kind: kind, ID: id, Detail: detail, Inputs: model,
		Choices: append([]int(nil), p.choices...), Tags: tags,
		Decisions: append([]int64(nil), p.dec...), ModelOK: ok,
	})
}

// ---------------------------------------------------------------- harness API

func smtName(name string) string {
	var sb strings.Builder
	sb.WriteString("in_")
	for _, r := range name {
		if (r >= 'a' && r <= 'z') || (r >= 'A' && r <= 'Z') || (r >= '0' && r <= '9') || r == '_' {
			sb.WriteRune(r)
		} else {
			sb.WriteByte('_')
		}
	}
	return sb.String()
}

func (p *path) uniqueName(name string) string {
	n := p.nameCount[name]
	p.nameCount[name] = n + 1
	if n > 0 {
		name = fmt.Sprintf("%s#%d", name, n)
	}
	return name
}

var kindWidth = map[types.BasicKind]int{
	types.Bool: 0, types.Int8: 8, types.Uint8: 8, types.Int16: 16, types.Uint16: 16,
	types.Int32: 32, types.Uint32: 32, types.Int64: 64, types.Uint64: 64,
	types.Int: 64, types.Uint: 64, types.Uintptr: 64, types.Float64: smt.SortF64,
}

func isSignedKind(k types.BasicKind) bool {
	switch k {
	case types.Int, types.Int8, types.Int16, types.Int32, types.Int64:
		return true
	}
	return false
}

func (p *path) newInput(name string, k types.BasicKind) value {
	name = p.uniqueName(name)
	if p.job.Concrete {
		v := p.job.Inputs[name]
		p.inputs = append(p.inputs, inputDecl{name: name})
		return concreteOfKind(k, v)
	}
	sn := smtName(name)
	for {
		if o, used := p.smtNames[sn]; !used || o == name {
			break
		}
		sn += "_x"
	}
	p.smtNames[sn] = name
	t := p.ctx.Var(sn, kindWidth[k])
	p.inputs = append(p.inputs, inputDecl{name, t})
	return sym{k, t}
}

func concreteOfKind(k types.BasicKind, v uint64) value {
	switch k {
	case types.Bool:
		return v != 0
	case types.Int8:
		return int8(v)
	case types.Uint8:
		return uint8(v)
	case types.Int16:
		return int16(v)
	case types.Uint16:
		return uint16(v)
	case types.Int32:
		return int32(v)
	case types.Uint32:
		return uint32(v)
	case types.Int64:
		return int64(v)
	case types.Uint64:
		return v
	case types.Int:
		return int(v)
	case types.Uint:
		return uint(v)
	case types.Uintptr:
		return uintptr(v)
	}
	panic(fmt.Sprintf("concreteOfKind %v", k))
}

func goString(v value) string {
	switch v := v.(type) {
	case string:
		return v
	case opaque:
		return "<" + v.what + ">"
	case symstr:
		panic("engine: symbolic string where a concrete one is required")
	}
	panic(fmt.Sprintf("engine: not a string: %T", v))
}

var verifInputKinds = map[string]types.BasicKind{
	"verifBool": types.Bool, "verifU8": types.Uint8, "verifU16": types.Uint16, "verifU32": types.Uint32,
	"verifU64": types.Uint64, "verifI8": types.Int8, "verifI16": types.Int16, "verifI32": types.Int32, "verifI64": types.Int64,
	"verifInt": types.Int,
}

// callVerifAPI implements the functions of the per-package verif runtime.
// ok=false means name is not an API function.
func callVerifAPI(fr *frame, name string, args []value) (res value, ok bool) {
	p := P
	if k, isIn := verifInputKinds[name]; isIn {
		return p.newInput(goString(args[0]), k), true
	}
	switch name {
	case "verifBytes":
		base := goString(args[0])
		n := int(asInt64(args[1]))
		out := make([]value, n)
		for i := range out {
			out[i] = p.newInput(fmt.Sprintf("%s_%d", base, i), types.Uint8)
		}
		return out, true
	case "verifString":
		base := goString(args[0])
		n := int(asInt64(args[1]))
		out := make([]value, n)
		for i := range out {
			out[i] = p.newInput(fmt.Sprintf("%s_%d", base, i), types.Uint8)
		}
		return normStr(out), true
	case "verifIntFrom":
		// a symbolic int restricted to the listed values, with its domain tracked
		name := p.uniqueName(goString(args[0]))
		var vals []uint64
		for _, e := range args[1].([]value) {
			vals = append(vals, uint64(asInt64(e)))
		}
		if len(vals) == 0 {
			panic(pathEnd{"harness-error", "verifIntFrom with no values"})
		}
		if p.job.Concrete {
			p.inputs = append(p.inputs, inputDecl{name: name})
			return int(p.job.Inputs[name]), true
		}
		sn := smtName(name)
		p.smtNames[sn] = name
		t := p.ctx.Var(sn, 64)
		p.inputs = append(p.inputs, inputDecl{name, t})
		// membership as a union of ranges (signed order), compact for contiguous value sets
		sorted := append([]uint64(nil), vals...)
		sort.Slice(sorted, func(i, j int) bool { return int64(sorted[i]) < int64(sorted[j]) })
		any := p.ctx.Bool(false)
		for i := 0; i < len(sorted); {
			j := i
			for j+1 < len(sorted) && sorted[j+1] == sorted[j]+1 {
				j++
			}
			if i == j {
				any = p.ctx.BOr(any, p.ctx.Eq(t, p.ctx.BV(64, sorted[i])))
			} else {
				any = p.ctx.BOr(any, p.ctx.BAnd(p.ctx.Sle(p.ctx.BV(64, sorted[i]), t), p.ctx.Sle(t, p.ctx.BV(64, sorted[j]))))
			}
			i = j + 1
		}
		p.assertPC(any)
		if p.doms == nil {
			p.doms = map[string]*domain{}
		}
		p.doms[sn] = &domain{vals: vals, w: 64}
		return sym{types.Int, t}, true
	case "verifChoice":
		n := int(asInt64(args[1]))
		if n <= 0 {
			panic(pathEnd{"harness-error", "verifChoice with n<=0"})
		}
		var c int
		if p.job.Concrete {
			if p.choiceIdx < len(p.job.Choices) {
				c = p.job.Choices[p.choiceIdx]
			}
			p.choiceIdx++
			if c >= n {
				c = n - 1
			}
		} else {
			conds := make([]*smt.Term, n)
			c = p.decide(conds, nil)
		}
		p.choices = append(p.choices, c)
		return c, true
	case "verifCheck":
		id := goString(args[1])
		p.asserts[id]++
		switch c := args[0].(type) {
		case bool:
			if !c {
				if p.assertFalse(id) {
					panic(pathEnd{"violation", id})
				}
				return nil, true
			}
			p.qsimplified++
		case sym:
			if c.t.IsTrue() {
				p.qsimplified++
				break
			}
			if p.acc == nil {
				p.acc = map[string]*smt.Term{}
				p.accSite = map[string]string{}
			}
			if old, ok := p.acc[id]; ok {
				p.acc[id] = p.ctx.BAnd(old, c.t)
			} else {
				p.acc[id] = c.t
				p.accOrder = append(p.accOrder, id)
				p.accSite[id] = p.site()
			}
		}
		return nil, true
	case "verifFlushChecks":
		p.flushChecks()
		return nil, true
	case "verifCount":
		// number of true elements; symbolic part summed in 8 bits (at most 255 flags)
		bs := args[0].([]value)
		if len(bs) > 255 {
			panic(pathEnd{"harness-error", "verifCount over more than 255 flags"})
		}
		conc := 0
		var t *smt.Term
		for _, b := range bs {
			switch b := b.(type) {
			case bool:
				if b {
					conc++
				}
			case sym:
				one := p.ctx.Ite(b.t, p.ctx.BV(8, 1), p.ctx.BV(8, 0))
				if t == nil {
					t = one
				} else {
					t = p.ctx.Add(t, one)
				}
			}
		}
		if t == nil {
			return conc, true
		}
		t = p.ctx.Add(t, p.ctx.BV(8, uint64(conc)))
		return mkVal(types.Int, p.ctx.ZExt(t, 64)), true
	case "verifB2I":
		switch c := args[0].(type) {
		case bool:
			if c {
				return 1, true
			}
			return 0, true
		case sym:
			return mkVal(types.Int, p.ctx.Ite(c.t, p.ctx.BV(64, 1), p.ctx.BV(64, 0))), true
		}
		return 0, true
	case "verifSelI64":
		switch c := args[0].(type) {
		case bool:
			if c {
				return args[1], true
			}
			return args[2], true
		case sym:
			return mkVal(types.Int64, p.ctx.Ite(c.t, termOf(args[1]), termOf(args[2]))), true
		}
		return nil, true
	case "verifSelU8":
		// non-branching select: c ? a : b
		switch c := args[0].(type) {
		case bool:
			if c {
				return args[1], true
			}
			return args[2], true
		case sym:
			return mkVal(types.Uint8, p.ctx.Ite(c.t, termOf(args[1]), termOf(args[2]))), true
		}
		return nil, true
	case "verifAnd":
		return andV(args[0], args[1]), true
	case "verifOr":
		return orV(args[0], args[1]), true
	case "verifAssume":
		p.flushChecks()
		switch c := args[0].(type) {
		case bool:
			if !c {
				panic(pathEnd{"assume-false", ""})
			}
		case sym:
			if c.t.IsFalse() {
				panic(pathEnd{"assume-false", ""})
			}
			// keep only the side where the assumption holds
			if len(p.dec) < len(p.job.Prefix) {
				p.assertPC(c.t)
			} else {
				r := p.check(c.t, false)
				if r == smt.Unsat {
					panic(pathEnd{"assume-false", ""})
				}
				if r == smt.Unknown {
					p.note("unknown in assume at " + p.site())
				}
				p.assertPC(c.t)
			}
		}
		return nil, true
	case "verifAssert":
		id := goString(args[1])
		p.asserts[id]++
		switch c := args[0].(type) {
		case bool:
			if c {
				p.qsimplified++
				return nil, true
			}
			if p.assertFalse(id) {
				panic(pathEnd{"violation", id})
			}
			// keep going: later assertions (of other properties sharing the harness) are still evaluated
			return nil, true
		case sym:
			if c.t.IsTrue() {
				p.qsimplified++
				return nil, true
			}
			r := p.check(c.t, true)
			switch r {
			case smt.Unsat:
				// discharged
			case smt.Sat:
				// extract the model under pc ∧ ¬c
				var m map[string]uint64
				mok := false
				if mm, err := p.sol.Model(p.ctx.Vars); err == nil {
					m = map[string]uint64{}
					for _, in := range p.inputs {
						m[in.name] = mm[in.v.Name]
					}
					mok = true
				}
				p.addViolation("assert", id, "assertion can fail at "+p.site(), m, mok)
				// continue on the side where it holds, if any
				if p.check(c.t, false) == smt.Unsat {
					panic(pathEnd{"violation", id})
				}
			default:
				p.note("unknown verdict for assertion " + id + " at " + p.site())
			}
			p.assertPC(c.t)
		}
		return nil, true
	case "verifReach":
		p.reach[goString(args[0])] = true
		return nil, true
	case "verifTag":
		p.tags[goString(args[0])] = goString(args[1])
		return nil, true
	case "verifObserve":
		p.observed = append(p.observed, goString(args[0])+"="+observeString(args[1]))
		return nil, true
	case "verifParam":
		name := goString(args[0])
		if v, ok := p.job.Params[name]; ok {
			return v, true
		}
		return int(asInt64(args[1])), true
	case "verifRegister":
		return nil, true
	case "verifSymbolic":
		return !p.job.Concrete, true
	case "verifIsConcrete":
		return !containsSym(args[0]), true
	}
	return nil, false
}

// flushChecks discharges the obligations accumulated by verifCheck, one query per id.
func (p *path) flushChecks() {
	if len(p.accOrder) == 0 {
		return
	}
	order := p.accOrder
	acc := p.acc
	p.accOrder, p.acc = nil, nil
	for _, id := range order {
		t := acc[id]
		r := p.check(t, true)
		switch r {
		case smt.Unsat:
		case smt.Sat:
			var m map[string]uint64
			mok := false
			if mm, err := p.sol.Model(p.ctx.Vars); err == nil {
				m = map[string]uint64{}
				for _, in := range p.inputs {
					m[in.name] = mm[in.v.Name]
				}
				mok = true
			}
			p.addViolation("assert", id, "accumulated check can fail (first at "+p.accSite[id]+")", m, mok)
			if p.check(t, false) == smt.Unsat {
				panic(pathEnd{"violation", id})
			}
		default:
			p.note("unknown verdict for check " + id)
		}
		p.assertPC(t)
	}
}

func containsSym(v value) bool {
	switch v := v.(type) {
	case sym, symstr:
		return true
	case iface:
		return containsSym(v.v)
	case []value:
		for _, e := range v {
			if containsSym(e) {
				return true
			}
		}
	case structure:
		for _, e := range v {
			if containsSym(e) {
				return true
			}
		}
	case array:
		for _, e := range v {
			if containsSym(e) {
				return true
			}
		}
	}
	return false
}

func observeString(v value) string {
	switch v := v.(type) {
	case iface:
		if v.t == nil {
			return "<nil>"
		}
		return observeString(v.v)
	case sym:
		return "<sym>"
	case symstr:
		return "<symstr>"
	case []value:
		var sb strings.Builder
		sb.WriteByte('[')
		for i, e := range v {
			if i > 0 {
				sb.WriteByte(' ')
			}
			sb.WriteString(observeString(e))
		}
		sb.WriteByte(']')
		return sb.String()
	case string:
		return fmt.Sprintf("%q", v)
	case bool, int, int8, int16, int32, int64, uint, uint8, uint16, uint32, uint64, uintptr:
		return fmt.Sprint(v)
	case *value:
		if v == nil {
			return "<nilptr>"
		}
		return "<ptr>"
	}
	return fmt.Sprintf("<%T>", v)
}

// ---------------------------------------------------------------- running a path

// World is the loaded program shared by all paths of this worker.
type World struct {
	Prog    *ssa.Program
	interp  *interpreter
	InitPkgs map[string]bool // packages whose init is interpreted
	ModPath string
}

var W *World

func isMkdbFn(fn *ssa.Function) bool {
	if fn == nil {
		return false
	}
	pkg := fn.Pkg
	if pkg == nil && fn.Parent() != nil {
		return isMkdbFn(fn.Parent())
	}
	if pkg == nil {
		if o := fn.Origin(); o != nil && o != fn {
			return isMkdbFn(o)
		}
		// methods wrappers / thunks have no package; use the receiver's
		if fn.Signature.Recv() != nil {
			if n, ok := derefNamed(fn.Signature.Recv().Type()); ok && n.Obj().Pkg() != nil {
				return strings.HasPrefix(n.Obj().Pkg().Path(), W.ModPath)
			}
		}
		return false
	}
	return strings.HasPrefix(pkg.Pkg.Path(), W.ModPath)
}

func derefNamed(t types.Type) (*types.Named, bool) {
	if p, ok := t.(*types.Pointer); ok {
		t = p.Elem()
	}
	n, ok := t.(*types.Named)
	return n, ok
}

// RunPath explores one path of harness fn under job.
func RunPath(job *Job) (res PathResult) {
	start := time.Now()
	p := newPath(job)
	P = p
	resetEnvModels()
	i := W.interp
	i.resetGlobals()

	status, detail := "ok", ""
	func() {
		defer func() {
			r := recover()
			if r == nil {
				return
			}
			switch r := r.(type) {
			case pathEnd:
				status, detail = r.status, r.detail
				if r.status == "budget" || r.status == "deadlock" {
					// a hang of the target: a candidate violation with a concrete witness
					m, ok := p.model()
					id := "instruction-budget"
					if r.status == "deadlock" {
						id = "deadlock"
					}
					p.addViolation(r.status, id, r.detail, m, ok)
				}
			case targetPanic:
				status, detail = "panic", "panic: "+panicString(r.v)
				m, ok := p.model()
				p.addViolation("panic", p.panicSite(), detail, m, ok)
			case rtPanic:
				status, detail = "panic", r.Error()
				m, ok := p.model()
				p.addViolation("panic", p.panicSite(), detail, m, ok)
			default:
				status, detail = "engine-error", fmt.Sprintf("%v at %s", r, p.site())
				if debugSites {
					detail += " stack: " + strings.ReplaceAll(string(debug.Stack()), "\n", " | ")
				}
				if os.Getenv("GOSYM_DEBUG") != "" {
					panic(r)
				}
			}
		}()
		i.runInits()
		fn := i.lookupHarness(job.Harness)
		if fn == nil {
			panic(pathEnd{"harness-error", "no such harness " + job.Harness})
		}
		call(i, nil, token.NoPos, fn, nil)
		p.flushChecks()
		runPendingGoroutines()
	}()
	killGoroutines()

	if status == "ok" && len(p.violations) > 0 {
		status = "violation"
	}
	res.Status, res.Detail = status, detail
	res.Decisions = p.dec
	res.Siblings = p.siblings
	res.Violations = p.violations
	for k := range p.reach {
		res.Reach = append(res.Reach, k)
	}
	sort.Strings(res.Reach)
	res.Asserts = p.asserts
	for f := range p.funcs {
		res.Funcs = append(res.Funcs, f.String())
	}
	sort.Strings(res.Funcs)
	for s := range p.stubs {
		res.Stubs = append(res.Stubs, s)
	}
	sort.Strings(res.Stubs)
	res.Inconclusive = p.inconclusive
	res.Observed = p.observed
	res.Tags = p.tags
	res.Instrs = p.instrs
	res.Forks = p.forks
	res.QSimplified = p.qsimplified
	res.QCross = p.qcross
	res.Choices = p.choices
	res.NInputs = len(p.inputs)
	res.ForkSites = p.forkSites
	if !job.Concrete {
		var q, qs, qu, qk int
		var tm time.Duration
		if p.fpMode {
			// accounting is approximate when the path switched solvers
			q, qs, qu, qk, tm = p.sol.Queries, p.sol.NSat, p.sol.NUnsat, p.sol.NUnknown, p.sol.Time
			fp := fpSolver
			res.Queries, res.QSat, res.QUnsat, res.QUnknown = q-fpBase.q, qs-fpBase.s, qu-fpBase.u, qk-fpBase.k
			res.SolverMs = float64(tm-fpBase.t) / 1e6
			fpBase = solverBase{fp.Queries, fp.NSat, fp.NUnsat, fp.NUnknown, fp.Time}
			ms := mainSolver
			res.Queries += ms.Queries - p.q0
			res.QSat += ms.NSat - p.qs0
			res.QUnsat += ms.NUnsat - p.qu0
			res.QUnknown += ms.NUnknown - p.qk0
			res.SolverMs += float64(ms.Time-p.t0) / 1e6
		} else {
			res.Queries = p.sol.Queries - p.q0
			res.QSat = p.sol.NSat - p.qs0
			res.QUnsat = p.sol.NUnsat - p.qu0
			res.QUnknown = p.sol.NUnknown - p.qk0
			res.SolverMs = float64(p.sol.Time-p.t0) / 1e6
		}
		if job.WantModel && status == "ok" {
			if m, ok := p.model(); ok {
				res.SampleInputs = m
			}
		}
	}
	res.WallMs = float64(time.Since(start)) / 1e6
	return res
}

type solverBase struct {
	q, s, u, k int
	t          time.Duration
}

var fpBase solverBase

func (p *path) panicSite() string {
	if p.panicAt != "" {
		return p.panicAt
	}
	if fr := p.lastMkdbFrame; fr != nil {
		return fr.fn.String()
	}
	if p.curFn != nil {
		return p.curFn.String()
	}
	return "?"
}

func panicString(v value) string {
	switch v := v.(type) {
	case iface:
		if s, ok := v.v.(string); ok {
			return s
		}
		if v.t != nil {
			return fmt.Sprintf("(%s) %s", v.t, toString(v.v))
		}
	}
	return toString(v)
}
