package interp

// Standard-library coverage beyond what mkdb itself calls today: constructs a
// change to mkdb may plausibly start using. Everything here has a concrete
// path that runs the real library (or Go's own semantics) and, where it is
// cheap, a symbolic path; what cannot be modelled ends the path as
// "unsupported" (inconclusive, never a verdict). Validated by the library
// battery harness/dev/sql/zz_verif_stdbattery.go (engine vs. native logs).

import (
	"bytes"
	"fmt"
	"go/token"
	"go/types"
	"math"
	"path/filepath"
	"sort"
	"strconv"
	"strings"

	"golang.org/x/tools/go/ssa"
)

func concreteBytes(v value) ([]byte, bool) {
	var bs []value
	switch x := v.(type) {
	case string:
		return []byte(x), true
	case symstr:
		bs = x.b
	case []value:
		bs = x
	default:
		return nil, false
	}
	out := make([]byte, len(bs))
	for i, e := range bs {
		b, ok := e.(uint8)
		if !ok {
			return nil, false
		}
		out[i] = b
	}
	return out, true
}

func byteVals(v value) []value {
	if isStr(v) {
		return strBytes(v)
	}
	return v.([]value)
}

// symIndex: first position of needle in haystack (forks on symbolic equalities).
func symIndex(hs, nd []value) int {
	for i := 0; i+len(nd) <= len(hs); i++ {
		var m value = true
		for j := range nd {
			m = andV(m, scalarEqV(hs[i+j], nd[j]))
			if mb, ok := m.(bool); ok && !mb {
				break
			}
		}
		if P.truth(m) {
			return i
		}
	}
	return -1
}

func symCount(hs, nd []value) int {
	if len(nd) == 0 {
		panic(pathEnd{"unsupported", "count of an empty separator over symbolic text"})
	}
	n := 0
	for i := 0; i+len(nd) <= len(hs); {
		var m value = true
		for j := range nd {
			m = andV(m, scalarEqV(hs[i+j], nd[j]))
			if mb, ok := m.(bool); ok && !mb {
				break
			}
		}
		if P.truth(m) {
			n++
			i += len(nd)
		} else {
			i++
		}
	}
	return n
}

// symCompare: -1/0/+1 as a term (no fork).
func symCompare(a, b value) value {
	c := P.ctx
	lt := strLessV(a, b, false)
	eq := strEqV(a, b)
	return mkVal(types.Int, c.Ite(termOf(lt), c.BV(64, ^uint64(0)), c.Ite(termOf(eq), c.BV(64, 0), c.BV(64, 1))))
}

func sliceAsStr(v value) value {
	if isStr(v) {
		return v
	}
	return normStr(v.([]value))
}

func floatFn1(f func(float64) float64) externalFn {
	return func(fr *frame, args []value) value {
		x, ok := args[0].(float64)
		if !ok {
			panic(pathEnd{"unsupported", "math function of a symbolic float at " + P.site()})
		}
		return f(x)
	}
}

func floatFn2(f func(float64, float64) float64) externalFn {
	return func(fr *frame, args []value) value {
		x, ok := args[0].(float64)
		y, ok2 := args[1].(float64)
		if !ok || !ok2 {
			panic(pathEnd{"unsupported", "math function of a symbolic float at " + P.site()})
		}
		return f(x, y)
	}
}

// ---------------------------------------------------------------- encoding/binary, general

func isBigEndian(order value) bool {
	if o, ok := order.(iface); ok && o.t != nil {
		return strings.Contains(o.t.String(), "bigEndian")
	}
	return false
}

func revBytes(b []value) []value {
	out := make([]value, len(b))
	for i := range b {
		out[i] = b[len(b)-1-i]
	}
	return out
}

// binFixedSize: encoded size of a value of type t (-1: not fixed-size data).
func binFixedSize(t types.Type, v value) int {
	switch ut := t.Underlying().(type) {
	case *types.Basic:
		k, _ := basicKindOfType(t)
		switch k {
		case types.Bool, types.Int8, types.Uint8:
			return 1
		case types.Int16, types.Uint16:
			return 2
		case types.Int32, types.Uint32, types.Float32:
			return 4
		case types.Int64, types.Uint64, types.Float64:
			return 8
		}
		return -1
	case *types.Array:
		e := binFixedSize(ut.Elem(), nil)
		if e < 0 {
			return -1
		}
		return e * int(ut.Len())
	case *types.Struct:
		n := 0
		for i := 0; i < ut.NumFields(); i++ {
			e := binFixedSize(ut.Field(i).Type(), nil)
			if e < 0 {
				return -1
			}
			n += e
		}
		return n
	case *types.Slice:
		e := binFixedSize(ut.Elem(), nil)
		if e < 0 || v == nil {
			return -1
		}
		return e * len(v.([]value))
	}
	return -1
}

func binEncode(t types.Type, v value, big bool) []value {
	switch ut := t.Underlying().(type) {
	case *types.Basic:
		k, _ := basicKindOfType(t)
		if k == types.Float64 || k == types.Float32 {
			f, ok := v.(float64)
			if k == types.Float32 {
				var f32 float32
				f32, ok = v.(float32)
				if ok {
					b := leBytes(types.Uint32, math.Float32bits(f32))
					if big {
						b = revBytes(b)
					}
					return b
				}
			}
			if !ok {
				panic(pathEnd{"unsupported", "binary encoding of a symbolic float"})
			}
			b := leBytes(types.Uint64, math.Float64bits(f))
			if big {
				b = revBytes(b)
			}
			return b
		}
		b := leBytes(k, v)
		if big {
			b = revBytes(b)
		}
		return b
	case *types.Array:
		var out []value
		for _, e := range v.(array) {
			out = append(out, binEncode(ut.Elem(), e, big)...)
		}
		return out
	case *types.Slice:
		var out []value
		for _, e := range v.([]value) {
			out = append(out, binEncode(ut.Elem(), e, big)...)
		}
		return out
	case *types.Struct:
		var out []value
		st := v.(structure)
		for i := 0; i < ut.NumFields(); i++ {
			if ut.Field(i).Name() == "_" {
				n := binFixedSize(ut.Field(i).Type(), nil)
				for j := 0; j < n; j++ {
					out = append(out, uint8(0))
				}
				continue
			}
			out = append(out, binEncode(ut.Field(i).Type(), st[i], big)...)
		}
		return out
	}
	panic(pathEnd{"unsupported", "binary encoding of " + t.String()})
}

// binDecode builds a value of type t from b (exactly binFixedSize bytes); old is the value being overwritten.
func binDecode(t types.Type, b []value, big bool, old value) value {
	switch ut := t.Underlying().(type) {
	case *types.Basic:
		k, _ := basicKindOfType(t)
		if big {
			b = revBytes(b)
		}
		if k == types.Float64 || k == types.Float32 {
			cb, ok := concreteBytes(b)
			if !ok {
				panic(pathEnd{"unsupported", "binary decoding of a symbolic float"})
			}
			var u uint64
			for i := len(cb) - 1; i >= 0; i-- {
				u = u<<8 | uint64(cb[i])
			}
			if k == types.Float32 {
				return math.Float32frombits(uint32(u))
			}
			return math.Float64frombits(u)
		}
		return fromLEBytes(k, b)
	case *types.Array:
		es := binFixedSize(ut.Elem(), nil)
		out := make(array, ut.Len())
		for i := range out {
			var o value
			if oa, ok := old.(array); ok {
				o = oa[i]
			}
			out[i] = binDecode(ut.Elem(), b[i*es:(i+1)*es], big, o)
		}
		return out
	case *types.Struct:
		out := make(structure, ut.NumFields())
		off := 0
		os, _ := old.(structure)
		for i := 0; i < ut.NumFields(); i++ {
			n := binFixedSize(ut.Field(i).Type(), nil)
			var o value
			if os != nil {
				o = os[i]
			}
			if ut.Field(i).Name() == "_" {
				if o == nil {
					o = zero(ut.Field(i).Type())
				}
				out[i] = o
			} else {
				out[i] = binDecode(ut.Field(i).Type(), b[off:off+n], big, o)
			}
			off += n
		}
		return out
	}
	panic(pathEnd{"unsupported", "binary decoding of " + t.String()})
}

func extBinaryWriteGeneral(fr *frame, args []value) value {
	w := args[0].(iface)
	data := args[2].(iface)
	if w.t == nil || data.t == nil {
		raise("binary.Write: nil writer or data")
	}
	big := isBigEndian(args[1])
	t := data.t
	v := data.v
	if pt, ok := t.Underlying().(*types.Pointer); ok {
		p := v.(*value)
		if p == nil {
			raise("invalid memory address or nil pointer dereference")
		}
		t, v = pt.Elem(), *p
	}
	if binFixedSize(t, v) < 0 {
		return mkError(fr.i, "binary.Write: some values are not fixed-sized in type "+data.t.String())
	}
	bs := binEncode(t, v, big)
	if bs == nil {
		bs = []value{}
	}
	if st, ok := bufferOf(w); ok {
		buf, _ := st[0].([]value)
		st[0] = append(buf, bs...)
		st[2] = int8(0)
		return iface{}
	}
	res := callMethod(fr, w, "Write", bs).(tuple)
	return res[1]
}

func extBinaryReadGeneral(fr *frame, args []value) value {
	r := args[0].(iface)
	data := args[2].(iface)
	big := isBigEndian(args[1])
	if data.t == nil {
		return mkError(fr.i, "binary.Read: invalid type <nil>")
	}
	var t types.Type
	var n int
	var ptr *value
	var sl []value
	switch ut := data.t.Underlying().(type) {
	case *types.Pointer:
		t = ut.Elem()
		ptr = data.v.(*value)
		if ptr == nil {
			raise("invalid memory address or nil pointer dereference")
		}
		n = binFixedSize(t, *ptr)
	case *types.Slice:
		t = ut
		sl = data.v.([]value)
		n = binFixedSize(t, sl)
	default:
		return mkError(fr.i, "binary.Read: invalid type "+data.t.String())
	}
	if n < 0 {
		return mkError(fr.i, "binary.Read: invalid type "+data.t.String())
	}
	var raw []value
	if st, ok := bufferOf(r); ok {
		bb, _ := st[0].([]value)
		off := st[1].(int)
		if len(bb)-off >= n {
			raw = bb[off : off+n]
			st[1] = off + n
			st[2] = int8(-1) // opRead
		}
	}
	if raw == nil {
		buf := make([]value, n)
		for i := range buf {
			buf[i] = uint8(0)
		}
		readFull := fr.i.prog.ImportedPackage("io").Func("ReadFull")
		res := call(fr.i, fr, token.NoPos, readFull, []value{r, buf}).(tuple)
		if err := res[1].(iface); err.t != nil {
			return err
		}
		raw = buf
	}
	if ptr != nil {
		*ptr = binDecode(t, raw, big, *ptr)
		return iface{}
	}
	et := t.(*types.Slice).Elem()
	es := binFixedSize(et, nil)
	for i := range sl {
		sl[i] = binDecode(et, raw[i*es:(i+1)*es], big, sl[i])
	}
	return iface{}
}

// ---------------------------------------------------------------- errors

func errUnwrapList(fr *frame, e iface) []iface {
	if e.t == nil {
		return nil
	}
	fn := findMethod(fr.i, e.t, "Unwrap")
	if fn == nil || fn.Signature.Params().Len() != 0 || fn.Signature.Results().Len() != 1 {
		return nil
	}
	res := call(fr.i, fr, token.NoPos, fn, []value{e.v})
	switch r := res.(type) {
	case iface:
		if r.t == nil {
			return nil
		}
		return []iface{r}
	case []value:
		var out []iface
		for _, x := range r {
			if xi, ok := x.(iface); ok && xi.t != nil {
				out = append(out, xi)
			}
		}
		return out
	}
	return nil
}

func extErrorsAs(fr *frame, args []value) value {
	err := args[0].(iface)
	tgt := args[1].(iface)
	if tgt.t == nil {
		panic(targetPanic{"errors: target cannot be nil"})
	}
	pt, ok := tgt.t.Underlying().(*types.Pointer)
	tp, _ := tgt.v.(*value)
	if !ok || tp == nil {
		panic(targetPanic{"errors: target must be a non-nil pointer"})
	}
	want := pt.Elem()
	var walk func(e iface, depth int) bool
	walk = func(e iface, depth int) bool {
		if e.t == nil || depth > 100 {
			return false
		}
		if _, isIface := want.Underlying().(*types.Interface); isIface {
			if types.Implements(e.t, want.Underlying().(*types.Interface)) {
				*tp = e
				return true
			}
		} else if types.Identical(e.t, want) {
			*tp = e.v
			return true
		}
		if fn := findMethod(fr.i, e.t, "As"); fn != nil && fn.Signature.Params().Len() == 1 {
			if r, ok := call(fr.i, fr, token.NoPos, fn, []value{e.v, tgt}).(bool); ok && r {
				return true
			}
		}
		for _, u := range errUnwrapList(fr, e) {
			if walk(u, depth+1) {
				return true
			}
		}
		return false
	}
	return walk(err, 0)
}

// ---------------------------------------------------------------- reflect.DeepEqual

func deepEqualV(a, b value, depth int) value {
	if depth > 64 {
		panic(pathEnd{"unsupported", "reflect.DeepEqual: nesting too deep (cyclic value?)"})
	}
	switch x := a.(type) {
	case iface:
		y, ok := b.(iface)
		if !ok {
			return false
		}
		if x.t == nil || y.t == nil {
			return x.t == nil && y.t == nil
		}
		if !types.Identical(x.t, y.t) {
			return false
		}
		return deepEqualV(x.v, y.v, depth+1)
	case []value:
		y, ok := b.([]value)
		if !ok {
			return false
		}
		if (x == nil) != (y == nil) || len(x) != len(y) {
			return false
		}
		var r value = true
		for i := range x {
			r = andV(r, deepEqualV(x[i], y[i], depth+1))
			if rb, ok := r.(bool); ok && !rb {
				return false
			}
		}
		return r
	case array:
		y, ok := b.(array)
		if !ok || len(x) != len(y) {
			return false
		}
		var r value = true
		for i := range x {
			r = andV(r, deepEqualV(x[i], y[i], depth+1))
			if rb, ok := r.(bool); ok && !rb {
				return false
			}
		}
		return r
	case structure:
		y, ok := b.(structure)
		if !ok || len(x) != len(y) {
			return false
		}
		var r value = true
		for i := range x {
			r = andV(r, deepEqualV(x[i], y[i], depth+1))
			if rb, ok := r.(bool); ok && !rb {
				return false
			}
		}
		return r
	case *value:
		y, ok := b.(*value)
		if !ok {
			return false
		}
		if x == y {
			return true
		}
		if x == nil || y == nil {
			return false
		}
		return deepEqualV(*x, *y, depth+1)
	case *omap:
		y, ok := b.(*omap)
		if !ok {
			return false
		}
		if (x == nil) != (y == nil) {
			return false
		}
		if x.len() != y.len() {
			return false
		}
		var r value = true
		for _, e := range x.entries {
			if e.dead {
				continue
			}
			ye := y.find(e.key)
			if ye == nil {
				return false
			}
			r = andV(r, deepEqualV(e.val, ye.val, depth+1))
			if rb, ok := r.(bool); ok && !rb {
				return false
			}
		}
		return r
	case string, symstr:
		if !isStr(b) {
			return false
		}
		return strEqV(a, b)
	case closure, *ssa.Function, *ssa.Builtin:
		return false
	case nil:
		return b == nil
	}
	if isSym(a) || isSym(b) {
		return scalarEqV(a, b)
	}
	return a == b
}

// ---------------------------------------------------------------- sync

type wgState struct {
	n       int
	waiters []*gor
}

var waitGroups = map[*value]*wgState{}

func wgOf(p *value) *wgState {
	w := waitGroups[p]
	if w == nil {
		w = &wgState{}
		waitGroups[p] = w
	}
	return w
}

type onceState struct{ done bool }

var onces = map[*value]*onceState{}

type modelClock struct{ ns int64 }

var clock modelClock

var atomicValues = map[*value]iface{}
var atomicPointers = map[*value]value{}

func resetStdModels() {
	waitGroups = map[*value]*wgState{}
	onces = map[*value]*onceState{}
	clock = modelClock{}
	atomicValues = map[*value]iface{}
	atomicPointers = map[*value]value{}
}

// modelTime builds a time.Time{wall:0, ext: seconds since year 1, loc: nil}; only
// second resolution would survive, so ext carries nanoseconds through wall's
// monotonic form instead: wall = hasMonotonic|sec<<30|nsec, ext = monotonic ns.
func modelNow(fr *frame) value {
	clock.ns += 1000000 // one millisecond per observation: time never stands still, never jumps
	const hasMonotonic = 1 << 63
	// 2024-01-01 00:00:00 UTC in seconds since 1885 (wall epoch of the monotonic form)
	const base = int64(4386441600)
	sec := base + clock.ns/1e9
	nsec := clock.ns % 1e9
	wall := uint64(hasMonotonic) | uint64(sec)<<30 | uint64(nsec)
	return structure{wall, clock.ns + 1, (*value)(nil)}
}

// ---------------------------------------------------------------- registration

func init() {
	// stock externals of x/tools' interpreter that assume concrete operands (one of
	// them, strings.Replace, swaps its arguments): the real bodies are interpreted instead
	for _, k := range []string{"strings.Count", "strings.EqualFold", "strings.Replace", "sort.Ints", "sort.Strings", "sort.Float64s", "strconv.Itoa", "strconv.FormatFloat"} {
		delete(externals, k)
	}
	for k, v := range map[string]externalFn{
		// ---- internal/bytealg (assembly in the real library)
		"internal/bytealg.Compare": func(fr *frame, args []value) value {
			a, aok := concreteBytes(args[0])
			b, bok := concreteBytes(args[1])
			if aok && bok {
				return bytes.Compare(a, b)
			}
			return symCompare(sliceAsStr(args[0]), sliceAsStr(args[1]))
		},
		"internal/bytealg.Equal": func(fr *frame, args []value) value {
			return strEqV(sliceAsStr(args[0]), sliceAsStr(args[1]))
		},
		"internal/bytealg.Count": func(fr *frame, args []value) value {
			return symCount(byteVals(args[0]), []value{args[1]})
		},
		"internal/bytealg.CountString": func(fr *frame, args []value) value {
			if s, ok := args[0].(string); ok {
				if c, ok := args[1].(uint8); ok {
					return strings.Count(s, string([]byte{c}))
				}
			}
			return symCount(byteVals(args[0]), []value{args[1]})
		},
		"internal/bytealg.Index": func(fr *frame, args []value) value {
			return symIndex(byteVals(args[0]), byteVals(args[1]))
		},
		"internal/bytealg.IndexString": func(fr *frame, args []value) value {
			a, aok := args[0].(string)
			b, bok := args[1].(string)
			if aok && bok {
				return strings.Index(a, b)
			}
			return symIndex(byteVals(args[0]), byteVals(args[1]))
		},
		"internal/bytealg.LastIndexByte": func(fr *frame, args []value) value {
			s := byteVals(args[0])
			for i := len(s) - 1; i >= 0; i-- {
				if P.truth(scalarEqV(s[i], args[1])) {
					return i
				}
			}
			return -1
		},
		"internal/bytealg.LastIndexByteString": func(fr *frame, args []value) value {
			s := byteVals(args[0])
			for i := len(s) - 1; i >= 0; i-- {
				if P.truth(scalarEqV(s[i], args[1])) {
					return i
				}
			}
			return -1
		},
		"bytes.Compare": func(fr *frame, args []value) value {
			a, aok := concreteBytes(args[0])
			b, bok := concreteBytes(args[1])
			if aok && bok {
				return bytes.Compare(a, b)
			}
			return symCompare(sliceAsStr(args[0]), sliceAsStr(args[1]))
		},
		"strings.Count": func(fr *frame, args []value) value {
			a, aok := args[0].(string)
			b, bok := args[1].(string)
			if aok && bok {
				return strings.Count(a, b)
			}
			return fallThrough{}
		},
		"strings.Replace": func(fr *frame, args []value) value {
			s, ok1 := args[0].(string)
			o, ok2 := args[1].(string)
			n, ok3 := args[2].(string)
			k, ok4 := args[3].(int)
			if ok1 && ok2 && ok3 && ok4 {
				return strings.Replace(s, o, n, k)
			}
			return fallThrough{}
		},
		"strings.EqualFold": func(fr *frame, args []value) value {
			a, aok := args[0].(string)
			b, bok := args[1].(string)
			if aok && bok {
				return strings.EqualFold(a, b)
			}
			return fallThrough{}
		},
		"strconv.Itoa": func(fr *frame, args []value) value {
			if n, ok := args[0].(int); ok {
				return strconv.Itoa(n)
			}
			if r, ok := symSprintf(fr, "%d", []value{iface{types.Typ[types.Int], args[0]}}); ok {
				return r
			}
			return fallThrough{}
		},
		"strconv.FormatInt": func(fr *frame, args []value) value {
			base, bok := args[1].(int)
			if n, ok := args[0].(int64); ok && bok {
				return strconv.FormatInt(n, base)
			}
			if bok && base == 10 {
				if r, ok := symSprintf(fr, "%d", []value{iface{types.Typ[types.Int64], args[0]}}); ok {
					return r
				}
			}
			return fallThrough{}
		},
		"strconv.FormatFloat": func(fr *frame, args []value) value {
			f, ok := args[0].(float64)
			if !ok {
				panic(pathEnd{"unsupported", "strconv.FormatFloat of a symbolic float"})
			}
			return strconv.FormatFloat(f, args[1].(byte), args[2].(int), args[3].(int))
		},
		"strconv.ParseFloat": func(fr *frame, args []value) value {
			s, ok := args[0].(string)
			if !ok {
				panic(pathEnd{"unsupported", "strconv.ParseFloat of symbolic text"})
			}
			f, err := strconv.ParseFloat(s, args[1].(int))
			if err != nil {
				return tuple{f, mkError(fr.i, err.Error())}
			}
			return tuple{f, iface{}}
		},
		// ---- math (architecture-specific bodies)
		"math.Floor": floatFn1(math.Floor), "math.Ceil": floatFn1(math.Ceil), "math.Trunc": floatFn1(math.Trunc),
		"math.archFloor": floatFn1(math.Floor), "math.archCeil": floatFn1(math.Ceil), "math.archTrunc": floatFn1(math.Trunc),
		"math.archSqrt": floatFn1(math.Sqrt), "math.Log2": floatFn1(math.Log2), "math.Log10": floatFn1(math.Log10),
		"math.Exp2": floatFn1(math.Exp2), "math.archExp": floatFn1(math.Exp), "math.archLog": floatFn1(math.Log),
		"math.RoundToEven": floatFn1(math.RoundToEven),
		"math.Mod":         floatFn2(math.Mod), "math.Pow": floatFn2(math.Pow), "math.Max": floatFn2(math.Max), "math.archMax": floatFn2(math.Max),
		"math.archMin": floatFn2(math.Min), "math.Hypot": floatFn2(math.Hypot), "math.Remainder": floatFn2(math.Remainder),
		"math.Float64bits": func(fr *frame, args []value) value {
			if f, ok := args[0].(float64); ok {
				return math.Float64bits(f)
			}
			panic(pathEnd{"unsupported", "math.Float64bits of a symbolic float"})
		},
		"math.Float64frombits": func(fr *frame, args []value) value {
			if u, ok := args[0].(uint64); ok {
				return math.Float64frombits(u)
			}
			panic(pathEnd{"unsupported", "math.Float64frombits of a symbolic integer"})
		},
		"math.Float32bits":     func(fr *frame, args []value) value { return math.Float32bits(args[0].(float32)) },
		"math.Float32frombits": func(fr *frame, args []value) value { return math.Float32frombits(args[0].(uint32)) },
		// ---- encoding/binary, any fixed-size data, either byte order
		"encoding/binary.Write": extBinaryWriteGeneral,
		"encoding/binary.Read":  extBinaryReadGeneral,
		"encoding/binary.Size": func(fr *frame, args []value) value {
			d := args[0].(iface)
			if d.t == nil {
				return -1
			}
			t, v := d.t, d.v
			if pt, ok := t.Underlying().(*types.Pointer); ok {
				t = pt.Elem()
				if p, _ := v.(*value); p != nil {
					v = *p
				} else {
					v = nil
				}
			}
			return binFixedSize(t, v)
		},
		// ---- errors
		"errors.As": extErrorsAs,
		"(*errors.joinError).Error": func(fr *frame, args []value) value {
			p := args[0].(*value)
			st := (*p).(structure)
			var parts []string
			for _, e := range st[0].([]value) {
				g, ok := goValue(fr, e)
				if !ok {
					return opaque{"joined error text over symbolic values"}
				}
				parts = append(parts, fmt.Sprint(g))
			}
			return strings.Join(parts, "\n")
		},
		// ---- fmt
		"fmt.Sprintln": func(fr *frame, args []value) value {
			gas, all := goArgs(fr, args[0].([]value))
			if !all {
				return opaque{"fmt.Sprintln over symbolic values"}
			}
			return fmt.Sprintln(gas...)
		},
		"fmt.Appendf": func(fr *frame, args []value) value {
			gas, all := goArgs(fr, args[2].([]value))
			if !all {
				panic(pathEnd{"unsupported", "fmt.Appendf over symbolic values"})
			}
			s := fmt.Sprintf(goString(args[1]), gas...)
			return append(args[0].([]value), strBytes(s)...)
		},
		// ---- reflect
		"(reflect.Value).Len": func(fr *frame, args []value) value {
			switch x := rV2V(args[0]).(type) {
			case []value:
				return len(x)
			case array:
				return len(x)
			case string:
				return len(x)
			case symstr:
				return len(x.b)
			case *omap:
				return x.len()
			case *mchan:
				return x.length()
			}
			panic(targetPanic{"reflect: call of reflect.Value.Len on a value without length"})
		},
		"(reflect.Value).IsNil": func(fr *frame, args []value) value {
			switch x := rV2V(args[0]).(type) {
			case *value:
				return x == nil
			case []value:
				return x == nil
			case *omap:
				return x == nil
			case iface:
				return x.t == nil
			case *mchan:
				return x == nil
			case *closure:
				return x == nil
			}
			return false
		},
		"reflect.DeepEqual": func(fr *frame, args []value) value { return deepEqualV(args[0], args[1], 0) },
		// ---- sync
		"(*sync.Mutex).TryLock": func(fr *frame, args []value) value {
			m := mutexOf(args[0].(*value))
			if m.writer == nil && m.readers == 0 && len(m.waiters) == 0 {
				m.writer = sched.cur
				return true
			}
			return false
		},
		"(*sync.RWMutex).TryLock": func(fr *frame, args []value) value {
			m := mutexOf(args[0].(*value))
			if m.writer == nil && m.readers == 0 && len(m.waiters) == 0 {
				m.writer = sched.cur
				return true
			}
			return false
		},
		"(*sync.RWMutex).TryRLock": func(fr *frame, args []value) value {
			m := mutexOf(args[0].(*value))
			if m.writer == nil && len(m.waiters) == 0 {
				m.readers++
				m.readerG[sched.cur]++
				return true
			}
			return false
		},
		"(*sync.Once).Do": func(fr *frame, args []value) value {
			p := args[0].(*value)
			o := onces[p]
			if o == nil {
				o = &onceState{}
				onces[p] = o
			}
			if o.done {
				return nil
			}
			o.done = true // as in the library, a panicking f counts as done
			call(fr.i, fr, token.NoPos, args[1], nil)
			return nil
		},
		"(*sync.WaitGroup).Add": func(fr *frame, args []value) value {
			w := wgOf(args[0].(*value))
			w.n += int(asInt64(args[1]))
			if w.n < 0 {
				panic(targetPanic{"sync: negative WaitGroup counter"})
			}
			if w.n == 0 {
				for _, g := range w.waiters {
					g.blocked = false
				}
				w.waiters = nil
			}
			return nil
		},
		"(*sync.WaitGroup).Done": func(fr *frame, args []value) value {
			w := wgOf(args[0].(*value))
			w.n--
			if w.n < 0 {
				panic(targetPanic{"sync: negative WaitGroup counter"})
			}
			if w.n == 0 {
				for _, g := range w.waiters {
					g.blocked = false
				}
				w.waiters = nil
			}
			return nil
		},
		"(*sync.WaitGroup).Wait": func(fr *frame, args []value) value {
			w := wgOf(args[0].(*value))
			if w.n > 0 {
				w.waiters = append(w.waiters, sched.cur)
				sched.block("WaitGroup.Wait")
			}
			return nil
		},
		"(*sync.Pool).Get": func(fr *frame, args []value) value {
			p := args[0].(*value)
			st := (*p).(structure)
			// the New field is the last one of sync.Pool
			newFn := st[len(st)-1]
			if newFn == nil {
				return iface{}
			}
			if c, ok := newFn.(*closure); ok && c == nil {
				return iface{}
			}
			if f, ok := newFn.(*ssa.Function); ok && f == nil {
				return iface{}
			}
			return call(fr.i, fr, token.NoPos, newFn, nil)
		},
		"(*sync.Pool).Put": func(fr *frame, args []value) value { return nil },
		// ---- sync/atomic.Value (unsafe in the real library): the cell holds the interface value
		"(*sync/atomic.Value).Store": func(fr *frame, args []value) value {
			v := args[1].(iface)
			if v.t == nil {
				panic(targetPanic{"sync/atomic: store of nil value into Value"})
			}
			p := args[0].(*value)
			if old, ok := atomicValues[p]; ok && !types.Identical(old.t, v.t) {
				panic(targetPanic{"sync/atomic: store of inconsistently typed value into Value"})
			}
			atomicValues[p] = v
			return nil
		},
		"(*sync/atomic.Value).Load": func(fr *frame, args []value) value {
			if v, ok := atomicValues[args[0].(*value)]; ok {
				return v
			}
			return iface{}
		},
		"(*sync/atomic.Value).Swap": func(fr *frame, args []value) value {
			p := args[0].(*value)
			old, ok := atomicValues[p]
			atomicValues[p] = args[1].(iface)
			if ok {
				return old
			}
			return iface{}
		},
		"(*sync/atomic.Pointer).Store": func(fr *frame, args []value) value {
			atomicPointers[args[0].(*value)] = args[1]
			return nil
		},
		"(*sync/atomic.Pointer).Load": func(fr *frame, args []value) value {
			if v, ok := atomicPointers[args[0].(*value)]; ok {
				return v
			}
			return (*value)(nil)
		},
		"(*sync/atomic.Pointer).Swap": func(fr *frame, args []value) value {
			p := args[0].(*value)
			old, ok := atomicPointers[p]
			atomicPointers[p] = args[1]
			if ok {
				return old
			}
			return (*value)(nil)
		},
		"(*sync/atomic.Pointer).CompareAndSwap": func(fr *frame, args []value) value {
			p := args[0].(*value)
			cur, ok := atomicPointers[p]
			if !ok {
				cur = (*value)(nil)
			}
			if cur.(*value) == args[1].(*value) {
				atomicPointers[p] = args[2]
				return true
			}
			return false
		},
		// ---- sort helpers that go through reflection in the real library
		"sort.SliceStable": func(fr *frame, args []value) value {
			x := args[0].(iface)
			s, ok := x.v.([]value)
			if !ok {
				raise("sort.SliceStable: not a slice")
			}
			swap := nativeFn(func(a []value) value {
				i, j := int(asInt64(a[0])), int(asInt64(a[1]))
				s[i], s[j] = s[j], s[i]
				return nil
			})
			st := fr.i.prog.ImportedPackage("sort").Func("stable_func")
			if st == nil {
				panic(pathEnd{"unsupported", "sort.stable_func not found"})
			}
			call(fr.i, fr, token.NoPos, st, []value{structure{args[1], swap}, len(s)})
			return nil
		},
		"sort.SliceIsSorted": func(fr *frame, args []value) value {
			x := args[0].(iface)
			s, ok := x.v.([]value)
			if !ok {
				raise("sort.SliceIsSorted: not a slice")
			}
			for i := len(s) - 1; i > 0; i-- {
				if P.truth(call(fr.i, fr, token.NoPos, args[1], []value{i, i - 1})) {
					return false
				}
			}
			return true
		},
		// ---- timers: fire only when the harness delivers a tick (like the ticker model)
		"time.NewTimer":  func(fr *frame, args []value) value { return newTimer(fr.i, nil) },
		"time.AfterFunc": func(fr *frame, args []value) value { return newTimer(fr.i, args[1]) },
		"time.After": func(fr *frame, args []value) value {
			p := newTimer(fr.i, nil).(*value)
			return (*p).(structure)[0]
		},
		"time.Tick": func(fr *frame, args []value) value {
			p := newTicker(fr.i).(*value)
			return (*p).(structure)[0]
		},
		"(*time.Timer).Stop": func(fr *frame, args []value) value {
			t := timerOf(args[0].(*value))
			if t == nil {
				panic(targetPanic{"time: Stop called on uninitialized Timer"})
			}
			was := !t.stopped
			t.stopped = true
			return was
		},
		"(*time.Timer).Reset": func(fr *frame, args []value) value {
			t := timerOf(args[0].(*value))
			if t == nil {
				panic(targetPanic{"time: Reset called on uninitialized Timer"})
			}
			was := !t.stopped
			t.stopped = false
			return was
		},
		"(*time.Ticker).Reset": func(fr *frame, args []value) value {
			if t := timerOf(args[0].(*value)); t != nil {
				t.stopped = false
			}
			return nil
		},
		// ---- time: a model clock that advances one millisecond per observation
		"time.Now":      func(fr *frame, args []value) value { return modelNow(fr) },
		"time.now":      func(fr *frame, args []value) value { clock.ns += 1000000; return tuple{int64(1704067200) + clock.ns/1e9, int32(clock.ns % 1e9), clock.ns + 1} },
		"time.runtimeNano": func(fr *frame, args []value) value { clock.ns += 1000000; return clock.ns + 1 },
		// ---- os / path helpers on the file-system model
		"path/filepath.Base":  func(fr *frame, args []value) value { return filepath.Base(goString(args[0])) },
		"path/filepath.Dir":   func(fr *frame, args []value) value { return filepath.Dir(goString(args[0])) },
		"path/filepath.Ext":   func(fr *frame, args []value) value { return filepath.Ext(goString(args[0])) },
		"path/filepath.Clean": func(fr *frame, args []value) value { return filepath.Clean(goString(args[0])) },
		"os.ReadFile": func(fr *frame, args []value) value {
			p := cleanPath(goString(args[0]))
			f := fsys.files[p]
			if f == nil {
				return tuple{[]value(nil), sentinel(fr.i, &errNotExist, "file does not exist")}
			}
			out := make([]value, len(f.data))
			copy(out, f.data)
			return tuple{out, iface{}}
		},
		"os.WriteFile": func(fr *frame, args []value) value {
			p := cleanPath(goString(args[0]))
			if fsys.dirs[p] || !fsys.dirs[filepath.Dir(p)] {
				return sentinel(fr.i, &errNotExist, "file does not exist")
			}
			f := fsys.files[p]
			if f == nil {
				f = &memFile{}
				fsys.files[p] = f
				fsys.order = append(fsys.order, p)
			}
			d := args[1].([]value)
			f.data = make([]value, len(d))
			copy(f.data, d)
			if f.synced > len(f.data) {
				f.synced = len(f.data)
			}
			return iface{}
		},
		"os.Create": func(fr *frame, args []value) value {
			return fsOpen(fr.i, goString(args[0]), 2|oCREATE|oTRUNC)
		},
		"os.Remove": func(fr *frame, args []value) value {
			p := cleanPath(goString(args[0]))
			if fsys.files[p] != nil {
				delete(fsys.files, p)
			} else if fsys.dirs[p] {
				for _, k := range fsys.order {
					if k != p && filepath.Dir(k) == p && (fsys.files[k] != nil || fsys.dirs[k]) {
						return mkError(fr.i, "remove "+p+": directory not empty")
					}
				}
				delete(fsys.dirs, p)
			} else {
				return sentinel(fr.i, &errNotExist, "file does not exist")
			}
			var no []string
			for _, k := range fsys.order {
				if k != p {
					no = append(no, k)
				}
			}
			fsys.order = no
			return iface{}
		},
		"os.Rename": func(fr *frame, args []value) value {
			a, b := cleanPath(goString(args[0])), cleanPath(goString(args[1]))
			f := fsys.files[a]
			if f == nil {
				if fsys.dirs[a] {
					panic(pathEnd{"unsupported", "os.Rename of a directory"})
				}
				return sentinel(fr.i, &errNotExist, "file does not exist")
			}
			if !fsys.dirs[filepath.Dir(b)] || fsys.dirs[b] {
				return sentinel(fr.i, &errNotExist, "file does not exist")
			}
			delete(fsys.files, a)
			_, existed := fsys.files[b]
			fsys.files[b] = f
			var no []string
			for _, k := range fsys.order {
				if k == a {
					if !existed {
						no = append(no, b)
					}
					continue
				}
				no = append(no, k)
			}
			fsys.order = no
			return iface{}
		},
		"os.Truncate": func(fr *frame, args []value) value {
			p := cleanPath(goString(args[0]))
			f := fsys.files[p]
			if f == nil {
				return sentinel(fr.i, &errNotExist, "file does not exist")
			}
			n := int(asInt64(args[1]))
			for len(f.data) < n {
				f.data = append(f.data, uint8(0))
			}
			f.data = f.data[:n]
			if f.synced > n {
				f.synced = n
			}
			return iface{}
		},
		"os.Mkdir": func(fr *frame, args []value) value {
			p := cleanPath(goString(args[0]))
			if fsys.dirs[p] || fsys.files[p] != nil {
				return sentinel(fr.i, &errExist, "file already exists")
			}
			if !fsys.dirs[filepath.Dir(p)] {
				return sentinel(fr.i, &errNotExist, "file does not exist")
			}
			fsys.dirs[p] = true
			fsys.order = append(fsys.order, p)
			return iface{}
		},
		"os.ReadDir": func(fr *frame, args []value) value {
			p := cleanPath(goString(args[0]))
			if !fsys.dirs[p] {
				return tuple{[]value(nil), sentinel(fr.i, &errNotExist, "file does not exist")}
			}
			var names []string
			for _, k := range fsys.order {
				if filepath.Dir(k) == p && k != p && (fsys.files[k] != nil || fsys.dirs[k]) {
					names = append(names, k)
				}
			}
			sort.Strings(names)
			var out []value
			for _, k := range names {
				size := 0
				if f := fsys.files[k]; f != nil {
					size = len(f.data)
				}
				out = append(out, makeFileInfoSized(fr.i, filepath.Base(k), fsys.dirs[k], size))
			}
			return tuple{out, iface{}}
		},
		"(*os.File).Stat": func(fr *frame, args []value) value {
			h := handleOf(args[0])
			if e := h.check(fr.i); e != nil {
				return tuple{iface{}, e}
			}
			size := 0
			if h.f != nil {
				size = len(h.f.data)
			}
			return tuple{makeFileInfoSized(fr.i, filepath.Base(h.path), h.isDir, size), iface{}}
		},
		"(*os.File).Name": func(fr *frame, args []value) value { return handleOf(args[0]).path },
		"(*os.File).WriteString": func(fr *frame, args []value) value {
			fn := externals["(*os.File).Write"]
			return fn(fr, []value{args[0], append([]value(nil), strBytes(args[1])...)})
		},
	} {
		externals[k] = v
	}
}
