// Copyright 2013 The Go Authors. All rights reserved.
// Use of this source code is governed by a BSD-style
// license that can be found in the LICENSE file.

// Package ssa/interp defines an interpreter for the SSA
// representation of Go programs.
//
// This interpreter is provided as an adjunct for testing the SSA
// construction algorithm.  Its purpose is to provide a minimal
// metacircular implementation of the dynamic semantics of each SSA
// instruction.  It is not, and will never be, a production-quality Go
// interpreter.
//
// The following is a partial list of Go features that are currently
// unsupported or incomplete in the interpreter.
//
// * Unsafe operations, including all uses of unsafe.Pointer, are
// impossible to support given the "boxed" value representation we
// have chosen.
//
// * The reflect package is only partially implemented.
//
// * The "testing" package is no longer supported because it
// depends on low-level details that change too often.
//
// * "sync/atomic" operations are not atomic due to the "boxed" value
// representation: it is not possible to read, modify and write an
// interface value atomically. As a consequence, Mutexes are currently
// broken.
//
// * recover is only partially implemented.  Also, the interpreter
// makes no attempt to distinguish target panics from interpreter
// crashes.
//
// * the sizes of the int, uint and uintptr types in the target
// program are assumed to be the same as those of the interpreter
// itself.
//
// * all values occupy space, even those of types defined by the spec
// to have zero size, e.g. struct{}.  This can cause asymptotic
// performance degradation.
//
// * os.Exit is implemented using panic, causing deferred functions to
// run.
package interp // import "golang.org/x/tools/go/ssa/interp"

import (
	"time"
	"fmt"
	"go/token"
	"go/types"
	"log"
	"os"
	"runtime"
	"slices"
	_ "unsafe"

	"golang.org/x/tools/go/ssa"
)

// mustDeref returns the element type of pointer type t.
func mustDeref(t types.Type) types.Type {
	if p, ok := t.Underlying().(*types.Pointer); ok {
		return p.Elem()
	}
	panic(fmt.Sprintf("mustDeref: not a pointer: %s", t))
}

type continuation int

const (
	kNext continuation = iota
	kReturn
	kJump
)

// Mode is a bitmask of options affecting the interpreter.
type Mode uint

const (
	DisableRecover Mode = 1 << iota // Disable recover() in target programs; show interpreter crash instead.
	EnableTracing                   // Print a trace of all instructions as they are interpreted.
)

type methodSet map[string]*ssa.Function

// State shared between all interpreted goroutines.
type interpreter struct {
	osArgs             []value                // the value of os.Args
	prog               *ssa.Program           // the SSA program
	globals            map[*ssa.Global]*value // addresses of global variables (immutable)
	mode               Mode                   // interpreter options
	reflectPackage     *ssa.Package           // the fake reflect package
	errorMethods       methodSet              // the method set of reflect.error, which implements the error interface.
	rtypeMethods       methodSet              // the method set of rtype, which implements the reflect.Type interface.
	runtimeErrorString types.Type             // the runtime.errorString type
	sizes              types.Sizes            // the effective type-sizing function
	goroutines         int32                  // atomically updated
	initDone           map[*ssa.Package]bool  // std packages initialised once per worker
	mkdbGlobals        []*ssa.Global
	harnesses          map[string]*ssa.Function
}

type deferred struct {
	fn    value
	args  []value
	instr *ssa.Defer
	tail  *deferred
}

type frame struct {
	i                *interpreter
	caller           *frame
	fn               *ssa.Function
	block, prevBlock *ssa.BasicBlock
	info             *fnInfo
	regs             []value // dynamic values of SSA variables, indexed by info.index
	defined          []bool
	locals           []value
	defers           *deferred
	result           value
	panicking        bool
	panic            interface{}
	phitemps         []value // temporaries for parallel phi assignment
	mkdb             bool    // fn belongs to the module under test
	depth            int
}

func (fr *frame) get(key ssa.Value) value {
	switch key := key.(type) {
	case nil:
		// Hack; simplifies handling of optional attributes
		// such as ssa.Slice.{Low,High}.
		return nil
	case *ssa.Function, *ssa.Builtin:
		return key
	case *ssa.Const:
		return constValue(key)
	case *ssa.Global:
		if r, ok := fr.i.globals[key]; ok {
			return r
		}
	}
	if idx, ok := fr.info.index[key]; ok {
		if r := fr.regs[idx]; r != nil || fr.defined[idx] {
			return r
		}
	}
	panic(fmt.Sprintf("get: no value for %T: %v", key, key.Name()))
}

// fnInfo numbers the SSA values a function defines (built once per function).
type fnInfo struct {
	index map[ssa.Value]int
	n     int
}

var fnInfos = map[*ssa.Function]*fnInfo{}

func infoOf(fn *ssa.Function) *fnInfo {
	if in, ok := fnInfos[fn]; ok {
		return in
	}
	in := &fnInfo{index: map[ssa.Value]int{}}
	add := func(v ssa.Value) {
		if _, ok := in.index[v]; !ok {
			in.index[v] = in.n
			in.n++
		}
	}
	for _, p := range fn.Params {
		add(p)
	}
	for _, fv := range fn.FreeVars {
		add(fv)
	}
	for _, l := range fn.Locals {
		add(l)
	}
	for _, b := range fn.Blocks {
		for _, instr := range b.Instrs {
			if v, ok := instr.(ssa.Value); ok {
				add(v)
			}
		}
	}
	fnInfos[fn] = in
	return in
}

func (fr *frame) set(key ssa.Value, v value) {
	idx := fr.info.index[key]
	fr.regs[idx] = v
	fr.defined[idx] = true
}

func (fr *frame) reg(key ssa.Value) value {
	return fr.regs[fr.info.index[key]]
}

// runDefer runs a deferred call d.
// It always returns normally, but may set or clear fr.panic.
func (fr *frame) runDefer(d *deferred) {
	if fr.i.mode&EnableTracing != 0 {
		fmt.Fprintf(os.Stderr, "%s: invoking deferred function call\n",
			fr.i.prog.Fset.Position(d.instr.Pos()))
	}
	var ok bool
	defer func() {
		if !ok {
			// Deferred call created a new state of panic.
			r := recover()
			if !isTargetPanic(r) {
				panic(r)
			}
			fr.panicking = true
			fr.panic = r
		}
	}()
	call(fr.i, fr, d.instr.Pos(), d.fn, d.args)
	ok = true
}

// runDefers executes fr's deferred function calls in LIFO order.
//
// On entry, fr.panicking indicates a state of panic; if
// true, fr.panic contains the panic value.
//
// On completion, if a deferred call started a panic, or if no
// deferred call recovered from a previous state of panic, then
// runDefers itself panics after the last deferred call has run.
//
// If there was no initial state of panic, or it was recovered from,
// runDefers returns normally.
func (fr *frame) runDefers() {
	for d := fr.defers; d != nil; d = d.tail {
		fr.runDefer(d)
	}
	fr.defers = nil
	if fr.panicking {
		panic(fr.panic) // new panic, or still panicking
	}
}

// lookupMethod returns the method set for type typ, which may be one
// of the interpreter's fake types.
func lookupMethod(i *interpreter, typ types.Type, meth *types.Func) *ssa.Function {
	switch typ {
	case rtypeType:
		return i.rtypeMethods[meth.Id()]
	case errorType:
		return i.errorMethods[meth.Id()]
	}
	return i.prog.LookupMethod(typ, meth.Pkg(), meth.Name())
}

// visitInstr interprets a single ssa.Instruction within the activation
// record frame.  It returns a continuation value indicating where to
// read the next instruction from.
// pathWallLimit bounds the wall-clock time of one path.
const pathWallLimit = 10 * time.Minute

func visitInstr(fr *frame, instr ssa.Instruction) continuation {
	p := P
	p.instrs++
	if p.instrs > p.budget {
		panic(pathEnd{"budget", fmt.Sprintf("instruction budget %d exhausted at %s", p.budget, p.site())})
	}
	if p.instrs&0xffff == 0 && time.Since(p.started) > pathWallLimit {
		// a path that makes progress only through solver calls would take hours to
		// use up the instruction budget: it ends like one that exceeded it
		panic(pathEnd{"budget", fmt.Sprintf("path wall-clock limit %s exceeded after %d instructions at %s", pathWallLimit, p.instrs, p.site())})
	}
	p.curInstr, p.curFn = instr, fr.fn
	if fr.mkdb {
		p.lastMkdbFrame = fr
	}
	switch instr := instr.(type) {
	case *ssa.DebugRef:
		// no-op

	case *ssa.UnOp:
		fr.set(instr, unop(instr, fr.get(instr.X)))

	case *ssa.BinOp:
		fr.set(instr, binop(instr.Op, instr.X.Type(), fr.get(instr.X), fr.get(instr.Y)))

	case *ssa.Call:
		fn, args := prepareCall(fr, &instr.Call)
		fr.set(instr, call(fr.i, fr, instr.Pos(), fn, args))

	case *ssa.ChangeInterface:
		fr.set(instr, fr.get(instr.X))

	case *ssa.ChangeType:
		fr.set(instr, fr.get(instr.X)) // (can't fail)

	case *ssa.Convert:
		fr.set(instr, conv(instr.Type(), instr.X.Type(), fr.get(instr.X)))

	case *ssa.SliceToArrayPointer:
		fr.set(instr, sliceToArrayPointer(instr.Type(), instr.X.Type(), fr.get(instr.X)))

	case *ssa.MakeInterface:
		fr.set(instr, iface{t: instr.X.Type(), v: fr.get(instr.X)})

	case *ssa.Extract:
		fr.set(instr, fr.get(instr.Tuple).(tuple)[instr.Index])

	case *ssa.Slice:
		fr.set(instr, slice(fr.get(instr.X), fr.get(instr.Low), fr.get(instr.High), fr.get(instr.Max)))

	case *ssa.Return:
		switch len(instr.Results) {
		case 0:
		case 1:
			fr.result = fr.get(instr.Results[0])
		default:
			var res []value
			for _, r := range instr.Results {
				res = append(res, fr.get(r))
			}
			fr.result = tuple(res)
		}
		fr.block = nil
		return kReturn

	case *ssa.RunDefers:
		fr.runDefers()

	case *ssa.Panic:
		p.notePanicSite()
		panic(targetPanic{fr.get(instr.X)})

	case *ssa.Send:
		chanSend(fr.get(instr.Chan).(*mchan), fr.get(instr.X))

	case *ssa.Store:
		addr := fr.get(instr.Addr).(*value)
		if addr == nil {
			raise("invalid memory address or nil pointer dereference")
		}
		store(mustDeref(instr.Addr.Type()), addr, fr.get(instr.Val))

	case *ssa.If:
		succ := 1
		if p.truth(fr.get(instr.Cond)) {
			succ = 0
		}
		fr.prevBlock, fr.block = fr.block, fr.block.Succs[succ]
		return kJump

	case *ssa.Jump:
		fr.prevBlock, fr.block = fr.block, fr.block.Succs[0]
		return kJump

	case *ssa.Defer:
		fn, args := prepareCall(fr, &instr.Call)
		defers := &fr.defers
		if into := fr.get(instr.DeferStack); into != nil {
			defers = into.(**deferred)
		}
		*defers = &deferred{
			fn:    fn,
			args:  args,
			instr: instr,
			tail:  *defers,
		}

	case *ssa.Go:
		fn, args := prepareCall(fr, &instr.Call)
		spawnGoroutine(fr.i, instr.Pos(), fn, args)

	case *ssa.MakeChan:
		fr.set(instr, newChan(int(asInt64(fr.get(instr.Size)))))

	case *ssa.Alloc:
		var addr *value
		if instr.Heap {
			// new
			addr = new(value)
			fr.set(instr, addr)
		} else {
			// local
			addr = fr.reg(instr).(*value)
		}
		*addr = zero(mustDeref(instr.Type()))

	case *ssa.MakeSlice:
		capv, lenv := asInt64(fr.get(instr.Cap)), asInt64(fr.get(instr.Len))
		if lenv < 0 || capv < lenv {
			raise("makeslice: len out of range")
		}
		if capv > 1<<24 {
			panic(pathEnd{"unsupported", fmt.Sprintf("make of %d elements at %s", capv, p.site())})
		}
		slice := make([]value, capv)
		tElt := instr.Type().Underlying().(*types.Slice).Elem()
		for i := range slice {
			slice[i] = zero(tElt)
		}
		fr.set(instr, slice[:lenv])

	case *ssa.MakeMap:
		var reserve int64
		if instr.Reserve != nil {
			reserve = asInt64(fr.get(instr.Reserve))
		}
		if !fitsInt(reserve, fr.i.sizes) {
			panic(fmt.Sprintf("ssa.MakeMap.Reserve value %d does not fit in int", reserve))
		}
		mt := instr.Type().Underlying().(*types.Map)
		fr.set(instr, makeMap(mt.Key(), mt.Elem(), reserve))

	case *ssa.Range:
		fr.set(instr, rangeIter(fr.get(instr.X), instr.X.Type()))

	case *ssa.Next:
		fr.set(instr, fr.get(instr.Iter).(iter).next())

	case *ssa.FieldAddr:
		base := fr.get(instr.X).(*value)
		if base == nil {
			raise("invalid memory address or nil pointer dereference")
		}
		fr.set(instr, &(*base).(structure)[instr.Field])

	case *ssa.Field:
		fr.set(instr, fr.get(instr.X).(structure)[instr.Field])

	case *ssa.IndexAddr:
		x := fr.get(instr.X)
		idx := fr.get(instr.Index)
		switch x := x.(type) {
		case []value:
			fr.set(instr, &x[indexIn(idx, len(x))])
		case *value: // *array
			if x == nil {
				raise("invalid memory address or nil pointer dereference")
			}
			a := (*x).(array)
			if si, ok := idx.(sym); ok && isStdTable(instr.X) {
				// constant lookup table of the standard library: fork per
				// distinct element value, not per index
				fr.set(instr, &a[tableIndex(si, a)])
			} else {
				fr.set(instr, &a[indexIn(idx, len(a))])
			}
		default:
			panic(fmt.Sprintf("unexpected x type in IndexAddr: %T", x))
		}

	case *ssa.Index:
		x := fr.get(instr.X)
		idx := fr.get(instr.Index)

		switch x := x.(type) {
		case array:
			if si, ok := idx.(sym); ok {
				fr.set(instr, x[tableIndex(si, x)])
			} else {
				fr.set(instr, x[indexIn(idx, len(x))])
			}
		case string:
			fr.set(instr, x[indexIn(idx, len(x))])
		case symstr:
			fr.set(instr, x.b[indexIn(idx, len(x.b))])
		default:
			panic(fmt.Sprintf("unexpected x type in Index: %T", x))
		}

	case *ssa.Lookup:
		fr.set(instr, lookup(instr, fr.get(instr.X), fr.get(instr.Index)))

	case *ssa.MapUpdate:
		m := fr.get(instr.Map)
		key := fr.get(instr.Key)
		v := fr.get(instr.Value)
		switch m := m.(type) {
		case *omap:
			m.insert(key, v)
		default:
			panic(fmt.Sprintf("illegal map type: %T", m))
		}

	case *ssa.TypeAssert:
		fr.set(instr, typeAssert(fr.i, instr, fr.get(instr.X).(iface)))

	case *ssa.MakeClosure:
		var bindings []value
		for _, binding := range instr.Bindings {
			bindings = append(bindings, fr.get(binding))
		}
		fr.set(instr, &closure{instr.Fn.(*ssa.Function), bindings})

	case *ssa.Phi:
		log.Fatal("unreachable") // phis are processed at block entry

	case *ssa.Select:
		fr.set(instr, doSelect(fr, instr))

	default:
		panic(fmt.Sprintf("unexpected instruction: %T", instr))
	}

	// if val, ok := instr.(ssa.Value); ok {
	// 	fmt.Println(toString(fr.env[val])) // debugging
	// }

	return kNext
}

// prepareCall determines the function value and argument values for a
// function call in a Call, Go or Defer instruction, performing
// interface method lookup if needed.
func prepareCall(fr *frame, call *ssa.CallCommon) (fn value, args []value) {
	v := fr.get(call.Value)
	if call.Method == nil {
		// Function call.
		fn = v
	} else {
		// Interface method invocation.
		recv := v.(iface)
		if recv.t == nil {
			raise("invalid memory address or nil pointer dereference (method call on nil interface)")
		}
		if f := lookupMethod(fr.i, recv.t, call.Method); f == nil {
			// Unreachable in well-typed programs.
			panic(fmt.Sprintf("method set for dynamic type %v does not contain %s", recv.t, call.Method))
		} else {
			fn = f
		}
		args = append(args, recv.v)
	}
	for _, arg := range call.Args {
		args = append(args, fr.get(arg))
	}
	return
}

// call interprets a call to a function (function, builtin or closure)
// fn with arguments args, returning its result.
// callpos is the position of the callsite.
func call(i *interpreter, caller *frame, callpos token.Pos, fn value, args []value) value {
	switch fn := fn.(type) {
	case *ssa.Function:
		if fn == nil {
			raise("invalid memory address or nil pointer dereference (call of nil func)")
		}
		return callSSA(i, caller, callpos, fn, args, nil)
	case *closure:
		return callSSA(i, caller, callpos, fn.Fn, args, fn.Env)
	case *ssa.Builtin:
		return callBuiltin(caller, callpos, fn, args)
	case nativeFn:
		return fn(args)
	}
	panic(fmt.Sprintf("cannot call %T", fn))
}

func loc(fset *token.FileSet, pos token.Pos) string {
	if pos == token.NoPos {
		return ""
	}
	return " at " + fset.Position(pos).String()
}

// callSSA interprets a call to function fn with arguments args,
// and lexical environment env, returning its result.
// callpos is the position of the callsite.
func callSSA(i *interpreter, caller *frame, callpos token.Pos, fn *ssa.Function, args []value, env []value) value {
	if i.mode&EnableTracing != 0 {
		fset := fn.Prog.Fset
		// TODO(adonovan): fix: loc() lies for external functions.
		fmt.Fprintf(os.Stderr, "Entering %s%s.\n", fn, loc(fset, fn.Pos()))
		suffix := ""
		if caller != nil {
			suffix = ", resuming " + caller.fn.String() + loc(fset, callpos)
		}
		defer fmt.Fprintf(os.Stderr, "Leaving %s%s.\n", fn, suffix)
	}
	fr := &frame{
		i:      i,
		caller: caller, // for panic/recover
		fn:     fn,
	}
	// the depth is set before intrinsics are tried: an intrinsic may call back into
	// target code (fmt calling a String method), and recursion through it must be counted too
	if caller != nil {
		fr.depth = caller.depth + 1
		if fr.depth > 3000 {
			panic(pathEnd{"budget", "call depth 3000 exceeded (unbounded recursion) in " + fn.String()})
		}
	}
	if fn.Parent() == nil {
		if res, handled := intercept(fr, fn, args); handled {
			return res
		}
		if fn.Blocks == nil {
			panic(pathEnd{"unsupported", "no code for function: " + fn.String() + " called at " + P.site()})
		}
	}
	if P.watchCB != nil && !P.inWatch {
		hit, known := P.watchHit[fn]
		if !known {
			name := fn.String()
			for _, w := range P.watchNames {
				if name == w {
					hit = true
				}
			}
			P.watchHit[fn] = hit
		}
		if hit {
			P.inWatch = true
			call(i, caller, callpos, P.watchCB, []value{fn.String()})
			P.inWatch = false
		}
	}
	fr.mkdb = isMkdbFn(fn)
	if fr.mkdb && !P.funcs[fn] {
		P.funcs[fn] = true
	}

	// generic function body?
	if fn.TypeParams().Len() > 0 && len(fn.TypeArgs()) == 0 {
		panic("interp requires ssa.BuilderMode to include InstantiateGenerics to execute generics")
	}

	fr.info = infoOf(fn)
	fr.regs = make([]value, fr.info.n)
	fr.defined = make([]bool, fr.info.n)
	fr.block = fn.Blocks[0]
	fr.locals = make([]value, len(fn.Locals))
	for i, l := range fn.Locals {
		fr.locals[i] = zero(mustDeref(l.Type()))
		fr.set(l, &fr.locals[i])
	}
	for i, p := range fn.Params {
		fr.set(p, args[i])
	}
	for i, fv := range fn.FreeVars {
		fr.set(fv, env[i])
	}
	for fr.block != nil {
		runFrame(fr)
	}
	// Destroy the locals to avoid accidental use after return.
	for i := range fn.Locals {
		fr.locals[i] = bad{}
	}
	return fr.result
}

// runFrame executes SSA instructions starting at fr.block and
// continuing until a return, a panic, or a recovered panic.
//
// After a panic, runFrame panics.
//
// After a normal return, fr.result contains the result of the call
// and fr.block is nil.
//
// A recovered panic in a function without named return parameters
// (NRPs) becomes a normal return of the zero value of the function's
// result type.
//
// After a recovered panic in a function with NRPs, fr.result is
// undefined and fr.block contains the block at which to resume
// control.
func runFrame(fr *frame) {
	defer func() {
		if fr.block == nil {
			return // normal return
		}
		if fr.i.mode&DisableRecover != 0 {
			return // let interpreter crash
		}
		r := recover()
		if !isTargetPanic(r) {
			panic(r) // path end, goroutine kill or engine error: no target defers
		}
		fr.panicking = true
		fr.panic = r
		fr.runDefers()
		fr.block = fr.fn.Recover
	}()

	for {
		if fr.i.mode&EnableTracing != 0 {
			fmt.Fprintf(os.Stderr, ".%s:\n", fr.block)
		}

		nonPhis := executePhis(fr)
		for _, instr := range nonPhis {
			if fr.i.mode&EnableTracing != 0 {
				if v, ok := instr.(ssa.Value); ok {
					fmt.Fprintln(os.Stderr, "\t", v.Name(), "=", instr)
				} else {
					fmt.Fprintln(os.Stderr, "\t", instr)
				}
			}
			if visitInstr(fr, instr) == kReturn {
				return
			}
			// Inv: kNext (continue) or kJump (last instr)
		}
	}
}

// executePhis executes the phi-nodes at the start of the current
// block and returns the non-phi instructions.
func executePhis(fr *frame) []ssa.Instruction {
	firstNonPhi := -1
	for i, instr := range fr.block.Instrs {
		if _, ok := instr.(*ssa.Phi); !ok {
			firstNonPhi = i
			break
		}
	}
	// Inv: 0 <= firstNonPhi; every block contains a non-phi.

	nonPhis := fr.block.Instrs[firstNonPhi:]
	if firstNonPhi > 0 {
		phis := fr.block.Instrs[:firstNonPhi]
		// Execute parallel assignment of phis.
		//
		// See "the swap problem" in Briggs et al's "Practical Improvements
		// to the Construction and Destruction of SSA Form" for discussion.
		predIndex := slices.Index(fr.block.Preds, fr.prevBlock)
		fr.phitemps = fr.phitemps[:0]
		for _, phi := range phis {
			phi := phi.(*ssa.Phi)
			if fr.i.mode&EnableTracing != 0 {
				fmt.Fprintln(os.Stderr, "\t", phi.Name(), "=", phi)
			}
			fr.phitemps = append(fr.phitemps, fr.get(phi.Edges[predIndex]))
		}
		for i, phi := range phis {
			fr.set(phi.(*ssa.Phi), fr.phitemps[i])
		}
	}
	return nonPhis
}

// doRecover implements the recover() built-in.
func doRecover(caller *frame) value {
	// recover() must be exactly one level beneath the deferred
	// function (two levels beneath the panicking function) to
	// have any effect.  Thus we ignore both "defer recover()" and
	// "defer f() -> g() -> recover()".
	if caller.i.mode&DisableRecover == 0 &&
		caller != nil && !caller.panicking &&
		caller.caller != nil && caller.caller.panicking {
		caller.caller.panicking = false
		p := caller.caller.panic
		caller.caller.panic = nil

		// TODO(adonovan): support runtime.Goexit.
		switch p := p.(type) {
		case targetPanic:
			// The target program explicitly called panic().
			return p.v
		case rtPanic:
			return iface{caller.i.runtimeErrorString, p.Error()}
		case runtime.Error:
			// The interpreter encountered a runtime error.
			return iface{caller.i.runtimeErrorString, p.Error()}
		case string:
			// The interpreter explicitly called panic().
			return iface{caller.i.runtimeErrorString, p}
		default:
			panic(fmt.Sprintf("unexpected panic type %T in target call to recover()", p))
		}
	}
	return iface{}
}

