package interp

// Operator self-test: every integer operator, conversion and the float kernel
// used by AVG, as the symbolic operators encode it, against Go's own result.
//
// For operands (a, b) the symbolic operator is applied to two SMT variables;
// the resulting term is (1) evaluated under {va=a, vb=b} by the term evaluator
// that the model cache and finite domains rely on, and (2) handed to the solver:
// va=a ∧ vb=b ∧ r≠expected must be unsat and va=a ∧ vb=b ∧ r=expected sat. The
// expected value comes from the unmodified concrete operators of the
// interpreter, i.e. from Go's arithmetic. A disagreement means the encoding (or
// its SMT-LIB printing, or the solver) is wrong: nothing a check reports can be
// believed then.

import (
	"fmt"
	"go/token"
	"go/types"
	"math"
	"math/rand"

	"gosym/smt"
)

var selfKinds = []types.BasicKind{types.Int8, types.Int16, types.Int32, types.Int64, types.Int,
	types.Uint8, types.Uint16, types.Uint32, types.Uint64, types.Uint}

var selfBinops = []token.Token{token.ADD, token.SUB, token.MUL, token.QUO, token.REM, token.AND, token.OR, token.XOR,
	token.AND_NOT, token.EQL, token.NEQ, token.LSS, token.LEQ, token.GTR, token.GEQ}

// SelfTestResult is what SelfTest reports.
type SelfTestResult struct {
	Cases    int      `json:"cases"`
	Queries  int      `json:"queries"`
	Failures []string `json:"failures"`
}

func selfOperands(w int, rnd *rand.Rand) []uint64 {
	m := smt.Mask(w)
	vals := []uint64{0, 1, 2, m, m - 1, m >> 1, (m >> 1) + 1, (m >> 1) + 2, 10, 255 & m, 1000000007 & m}
	for i := 0; i < 3; i++ {
		vals = append(vals, rnd.Uint64()&m)
	}
	return vals
}

// SelfTest runs the operator identities; seed varies the random operands.
func SelfTest(seed int64) (res SelfTestResult) {
	res.Failures = []string{}
	rnd := rand.New(rand.NewSource(seed))
	job := &Job{Harness: "selftest"}
	fail := func(format string, a ...interface{}) {
		if len(res.Failures) < 20 {
			res.Failures = append(res.Failures, fmt.Sprintf(format, a...))
		}
	}
	// one fresh path (solver state, path condition) per case
	withPath := func(fn func(p *path)) {
		p := newPath(job)
		saved := P
		P = p
		defer func() {
			P = saved
			if r := recover(); r != nil {
				fail("engine panic: %v", r)
			}
		}()
		fn(p)
	}
	// check that term r has value want under va=a (and vb=b)
	verify := func(p *path, what string, r *smt.Term, want uint64, env map[string]uint64, pre *smt.Term) {
		res.Cases++
		if got := smt.Eval(r, env, map[int]uint64{}); got != want {
			fail("%s: evaluator gives %#x, Go gives %#x", what, got, want)
			return
		}
		var eq *smt.Term
		if r.W == 0 {
			eq = p.ctx.Eq(r, p.ctx.Bool(want != 0))
		} else {
			eq = p.ctx.Eq(r, p.ctx.BV(r.W, want))
		}
		res.Queries += 2
		if rr := p.check(p.ctx.BAnd(pre, p.ctx.BNot(eq)), false); rr != smt.Unsat {
			fail("%s: solver finds another value than Go's %#x (%v)", what, want, rr)
			return
		}
		if rr := p.check(p.ctx.BAnd(pre, eq), false); rr != smt.Sat {
			fail("%s: solver rejects Go's value %#x (%v)", what, want, rr)
		}
	}
	bits := func(v value) uint64 {
		switch v := v.(type) {
		case bool:
			if v {
				return 1
			}
			return 0
		case float64:
			return math.Float64bits(v)
		}
		t := termOf(v)
		return t.Val
	}

	for _, k := range selfKinds {
		w := kindWidth[k]
		typ := types.Typ[k]
		ops := selfOperands(w, rnd)
		// binary operators
		for _, op := range selfBinops {
			op := op
			div := op == token.QUO || op == token.REM
			one := func(p *path, a, b uint64, asPC bool) {
				va, vb := p.ctx.Var("a", w), p.ctx.Var("b", w)
				pre := p.ctx.BAnd(p.ctx.Eq(va, p.ctx.BV(w, a)), p.ctx.Eq(vb, p.ctx.BV(w, b)))
				if asPC {
					p.assertPC(pre)
					pre = p.ctx.Bool(true)
				}
				want := bits(binop(op, typ, concreteOfKind(k, a), concreteOfKind(k, b)))
				r := symBinop(op, sym{k, va}, sym{k, vb})
				verify(p, fmt.Sprintf("%s %s %s (%#x, %#x)", typ, op, typ, a, b), termOf(r), want,
					map[string]uint64{"a": a, "b": b}, pre)
			}
			var pairs [][2]uint64
			for i, a := range ops {
				// pair each a with three b's (all pairs would be 14*14 per op and kind)
				for _, b := range []uint64{ops[(i*5+1)%len(ops)], ops[(i*3+7)%len(ops)], a} {
					if div && b == 0 {
						continue // raised as a run-time panic by a forked path, tested below
					}
					pairs = append(pairs, [2]uint64{a, b})
				}
			}
			if div {
				// the divisor test forks on the path condition: one path per case
				for _, pr := range pairs {
					pr := pr
					withPath(func(p *path) { one(p, pr[0], pr[1], true) })
				}
			} else {
				// operands given as assumptions of each query: one path for all cases
				withPath(func(p *path) {
					for _, pr := range pairs {
						one(p, pr[0], pr[1], false)
					}
				})
			}
		}
		// division by zero is a run-time panic on the path where the divisor is zero
		withPath(func(p *path) {
			va, vb := p.ctx.Var("a", w), p.ctx.Var("b", w)
			p.assertPC(p.ctx.Eq(vb, p.ctx.BV(w, 0)))
			res.Cases++
			raised := false
			func() {
				defer func() {
					if r := recover(); r != nil {
						if _, ok := r.(rtPanic); ok {
							raised = true
							return
						}
						panic(r)
					}
				}()
				symBinop(token.QUO, sym{k, va}, sym{k, vb})
			}()
			if !raised {
				fail("%s / 0 did not raise a run-time panic", typ)
			}
		})
		// shifts: count kinds uint8 and int (counts beyond the width included)
		for _, op := range []token.Token{token.SHL, token.SHR} {
			for _, ck := range []types.BasicKind{types.Uint8, types.Uint, types.Int} {
				cw := kindWidth[ck]
				op, ck := op, ck
				withPath(func(p *path) {
					va, vc := p.ctx.Var("a", w), p.ctx.Var("c", cw)
					if isSignedKind(ck) {
						// a negative count is a run-time panic on a forked path; here counts are not negative
						p.assertPC(p.ctx.Sle(p.ctx.BV(cw, 0), vc))
					}
					for _, a := range ops[:8] {
						for _, cnt := range []uint64{0, 1, uint64(w - 1), uint64(w), uint64(w + 1), 63, 64, 200} {
							cnt := cnt & smt.Mask(cw)
							pre := p.ctx.BAnd(p.ctx.Eq(va, p.ctx.BV(w, a)), p.ctx.Eq(vc, p.ctx.BV(cw, cnt)))
							want := bits(binop(op, typ, concreteOfKind(k, a), concreteOfKind(ck, cnt)))
							r := symBinop(op, sym{k, va}, sym{ck, vc})
							verify(p, fmt.Sprintf("%s %s %s (%#x, %d)", typ, op, types.Typ[ck], a, cnt), termOf(r), want,
								map[string]uint64{"a": a, "c": cnt}, pre)
						}
					}
				})
			}
		}
		// unary minus and complement
		withPath(func(p *path) {
			va := p.ctx.Var("a", w)
			for _, a := range ops {
				pre := p.ctx.Eq(va, p.ctx.BV(w, a))
				neg := bits(binop(token.SUB, typ, concreteOfKind(k, 0), concreteOfKind(k, a)))
				verify(p, fmt.Sprintf("-%s (%#x)", typ, a), termOf(symUnop(token.SUB, sym{k, va})), neg, map[string]uint64{"a": a}, pre)
				com := bits(binop(token.XOR, typ, concreteOfKind(k, smt.Mask(w)), concreteOfKind(k, a)))
				verify(p, fmt.Sprintf("^%s (%#x)", typ, a), termOf(symUnop(token.XOR, sym{k, va})), com, map[string]uint64{"a": a}, pre)
			}
		})
		// conversions to every other integer kind
		withPath(func(p *path) {
			va := p.ctx.Var("a", w)
			for _, dk := range selfKinds {
				for _, a := range ops {
					want := bits(conv(types.Typ[dk], typ, concreteOfKind(k, a)))
					verify(p, fmt.Sprintf("%s(%s %#x)", types.Typ[dk], typ, a), termOf(symConvScalar(dk, sym{k, va})), want,
						map[string]uint64{"a": a}, p.ctx.Eq(va, p.ctx.BV(w, a)))
				}
			}
		})
	}
	// the float kernel of AVG: round(float64(sum) / float64(n)) back to int64, and
	// the running form the engine uses (average so far, times count, plus value)
	i64 := types.Int64
	for _, pr := range [][2]int64{{7, 2}, {-7, 2}, {1, 3}, {-1, 3}, {5, 10}, {-5, 10}, {15, 10}, {math.MaxInt32, 3}, {math.MinInt32, 7},
		{123, 2}, {298, 4}, {0, 5}, {1 << 53, 3}, {-(1 << 40) - 1, 2}} {
		a, b := pr[0], pr[1]
		withPath(func(p *path) {
			va, vb := p.ctx.Var("a", 64), p.ctx.Var("b", 64)
			p.assertPC(p.ctx.BAnd(p.ctx.Eq(va, p.ctx.BV(64, uint64(a))), p.ctx.Eq(vb, p.ctx.BV(64, uint64(b)))))
			fa := symConvScalar(types.Float64, sym{i64, va})
			fb := symConvScalar(types.Float64, sym{i64, vb})
			q := symBinop(token.QUO, fa, fb)
			rq := mkVal(types.Float64, p.ctx.FPRoundAway(termOf(q)))
			back := symConvScalar(i64, rq.(sym))
			want := uint64(int64(math.Round(float64(a) / float64(b))))
			res.Cases++
			res.Queries += 2
			eq := p.ctx.Eq(termOf(back), p.ctx.BV(64, want))
			if rr := p.check(p.ctx.BNot(eq), false); rr != smt.Unsat {
				fail("int64(round(float64(%d)/float64(%d))): solver finds another value than Go's %d (%v)", a, b, int64(want), rr)
			} else if rr := p.check(eq, false); rr != smt.Sat {
				fail("int64(round(float64(%d)/float64(%d))): solver rejects Go's value %d (%v)", a, b, int64(want), rr)
			}
		})
	}
	return res
}
