package smt

import (
	"bufio"
	"fmt"
	"io"
	"os/exec"
	"strconv"
	"strings"
	"time"
)

type Result int

const (
	Unsat Result = iota
	Sat
	Unknown
	Error
)

func (r Result) String() string {
	return [...]string{"unsat", "sat", "unknown", "error"}[r]
}

// Solver is one kept-alive SMT solver process spoken to in SMT-LIB2.
type Solver struct {
	Kind    string
	cmd     *exec.Cmd
	in      *bufio.Writer
	inRaw   io.WriteCloser
	out     *bufio.Reader
	lines   chan string
	dead    bool
	timeout time.Duration
	defined map[int]bool
	declared map[string]bool
	LastErr string

	Queries  int
	NSat     int
	NUnsat   int
	NUnknown int
	NError   int
	Time     time.Duration
	Log      io.Writer // optional transcript
}

func StartSolver(kind string, timeoutMs int) (*Solver, error) {
	var cmd *exec.Cmd
	switch kind {
	case "z3":
		cmd = exec.Command("/usr/bin/z3", "-in", fmt.Sprintf("-t:%d", timeoutMs))
	case "z3-new":
		cmd = exec.Command("z3-new", "-in", fmt.Sprintf("-t:%d", timeoutMs))
	case "cvc5":
		cmd = exec.Command("cvc5", "--incremental", "--produce-models", "--lang=smt2", fmt.Sprintf("--tlimit-per=%d", timeoutMs))
	default:
		return nil, fmt.Errorf("unknown solver %q", kind)
	}
	in, err := cmd.StdinPipe()
	if err != nil {
		return nil, err
	}
	out, err := cmd.StdoutPipe()
	if err != nil {
		return nil, err
	}
	cmd.Stderr = cmd.Stdout
	if err := cmd.Start(); err != nil {
		return nil, err
	}
	s := &Solver{Kind: kind, cmd: cmd, in: bufio.NewWriterSize(in, 1<<16), inRaw: in, out: bufio.NewReaderSize(out, 1<<16),
		defined: map[int]bool{}, declared: map[string]bool{}, lines: make(chan string, 1024),
		timeout: time.Duration(timeoutMs)*time.Millisecond + 10*time.Second}
	go func(r *bufio.Reader, ch chan string) {
		for {
			line, err := r.ReadString('\n')
			if line != "" {
				ch <- line
			}
			if err != nil {
				close(ch)
				return
			}
		}
	}(s.out, s.lines)
	if kind == "cvc5" {
		s.send("(set-logic ALL)")
	}
	s.send("(set-option :produce-models true)")
	return s, nil
}

func (s *Solver) Close() {
	if s == nil || s.cmd == nil {
		return
	}
	s.inRaw.Close()
	done := make(chan struct{})
	go func() { s.cmd.Wait(); close(done) }()
	select {
	case <-done:
	case <-time.After(2 * time.Second):
		s.cmd.Process.Kill()
	}
	s.cmd = nil
}

func (s *Solver) send(line string) {
	if s.Log != nil {
		fmt.Fprintln(s.Log, line)
	}
	s.in.WriteString(line)
	s.in.WriteByte('\n')
}

// Reset starts a fresh scope (one per explored path).
func (s *Solver) Reset() {
	s.send("(reset)")
	if s.Kind == "cvc5" {
		s.send("(set-logic ALL)")
	}
	s.send("(set-option :produce-models true)")
	s.defined = map[int]bool{}
	s.declared = map[string]bool{}
}

// define makes sure t and all its sub-terms are known to the solver.
func (s *Solver) define(t *Term) {
	switch t.Op {
	case OpConst:
		return
	case OpVar:
		if !s.declared[t.Name] {
			s.declared[t.Name] = true
			s.send(fmt.Sprintf("(declare-const %s %s)", t.Name, SortString(t.W)))
		}
		return
	}
	if s.defined[t.ID] {
		return
	}
	// iterative post-order to survive deep terms
	type fr struct {
		t *Term
		i int
	}
	stack := []fr{{t, 0}}
	for len(stack) > 0 {
		top := &stack[len(stack)-1]
		if top.i < len(top.t.Args) {
			a := top.t.Args[top.i]
			top.i++
			switch a.Op {
			case OpConst:
			case OpVar:
				if !s.declared[a.Name] {
					s.declared[a.Name] = true
					s.send(fmt.Sprintf("(declare-const %s %s)", a.Name, SortString(a.W)))
				}
			default:
				if !s.defined[a.ID] {
					stack = append(stack, fr{a, 0})
				}
			}
			continue
		}
		x := top.t
		stack = stack[:len(stack)-1]
		if s.defined[x.ID] {
			continue
		}
		s.defined[x.ID] = true
		s.send(fmt.Sprintf("(define-fun %s () %s %s)", x.Ref(), SortString(x.W), x.Body()))
	}
}

func (s *Solver) Assert(t *Term) {
	if t.IsTrue() {
		return
	}
	s.define(t)
	s.send(fmt.Sprintf("(assert %s)", t.Ref()))
}

// Check asks whether the asserted formulas plus assumption (may be nil) are satisfiable.
func (s *Solver) Check(assumption *Term, negate bool) Result {
	start := time.Now()
	if assumption != nil {
		s.define(assumption)
		lit := assumption.Ref()
		if negate {
			lit = "(not " + lit + ")"
		}
		if assumption.Op == OpConst {
			// constants cannot be assumption literals
			if (assumption.Val == 1) == negate {
				s.account(Unsat, start)
				return Unsat
			}
			s.send("(check-sat)")
			r := s.readResult()
			s.account(r, start)
			return r
		}
		s.send("(check-sat-assuming (" + lit + "))")
	} else {
		s.send("(check-sat)")
	}
	r := s.readResult()
	s.account(r, start)
	return r
}

func (s *Solver) account(r Result, start time.Time) {
	s.Queries++
	s.Time += time.Since(start)
	switch r {
	case Sat:
		s.NSat++
	case Unsat:
		s.NUnsat++
	case Unknown:
		s.NUnknown++
	default:
		s.NError++
	}
}

// readLine returns the next output line, or ok=false when the solver died or
// did not answer within its time limit (it is then killed; the engine restarts it).
func (s *Solver) readLine() (string, bool) {
	if s.dead {
		return "", false
	}
	select {
	case line, ok := <-s.lines:
		if !ok {
			s.dead = true
			s.LastErr = "solver process ended"
			return "", false
		}
		return line, true
	case <-time.After(s.timeout):
		s.dead = true
		s.LastErr = "solver did not answer within its time limit; killed"
		if s.cmd != nil && s.cmd.Process != nil {
			s.cmd.Process.Kill()
		}
		return "", false
	}
}

func (s *Solver) Dead() bool { return s.dead }

func (s *Solver) readResult() Result {
	if err := s.in.Flush(); err != nil {
		s.LastErr = err.Error()
		return Error
	}
	sawErr := false
	for {
		line, ok := s.readLine()
		if !ok {
			return Unknown
		}
		line = strings.TrimSpace(line)
		if s.Log != nil {
			fmt.Fprintln(s.Log, "; <- "+line)
		}
		switch {
		case line == "sat":
			if sawErr {
				return Error
			}
			return Sat
		case line == "unsat":
			if sawErr {
				return Error
			}
			return Unsat
		case line == "unknown" || line == "timeout":
			if sawErr {
				return Error
			}
			return Unknown
		case strings.Contains(line, "(error"):
			sawErr = true
			s.LastErr = line
		case line == "" || line == "success":
		default:
			// unexpected chatter (warnings): remember, keep reading
			if strings.Contains(line, "rror") {
				sawErr = true
				s.LastErr = line
			}
		}
	}
}

// Model returns values of the given variables after a Sat answer.
func (s *Solver) Model(vars []*Term) (map[string]uint64, error) {
	res := map[string]uint64{}
	if len(vars) == 0 {
		return res, nil
	}
	const chunk = 200
	for i := 0; i < len(vars); i += chunk {
		j := i + chunk
		if j > len(vars) {
			j = len(vars)
		}
		var sb strings.Builder
		sb.WriteString("(get-value (")
		n := 0
		for _, v := range vars[i:j] {
			if !s.declared[v.Name] {
				res[v.Name] = 0 // unconstrained: never reached the solver
				continue
			}
			sb.WriteString(v.Name)
			sb.WriteByte(' ')
			n++
		}
		sb.WriteString("))")
		if n == 0 {
			continue
		}
		s.send(sb.String())
		if err := s.in.Flush(); err != nil {
			return nil, err
		}
		txt, err := s.readSexp()
		if err != nil {
			return nil, err
		}
		if err := parseModel(txt, res); err != nil {
			return nil, fmt.Errorf("%v in %q", err, txt)
		}
	}
	return res, nil
}

func (s *Solver) readSexp() (string, error) {
	var sb strings.Builder
	depth := 0
	started := false
	for {
		line, ok := s.readLine()
		if !ok {
			return "", fmt.Errorf("solver gone: %s", s.LastErr)
		}
		if s.Log != nil {
			fmt.Fprint(s.Log, "; <- "+line)
		}
		if !started && strings.TrimSpace(line) == "" {
			continue
		}
		sb.WriteString(line)
		for _, ch := range line {
			switch ch {
			case '(':
				depth++
				started = true
			case ')':
				depth--
			}
		}
		if started && depth <= 0 {
			break
		}
	}
	out := sb.String()
	if strings.Contains(out, "(error") {
		return "", fmt.Errorf("solver: %s", strings.TrimSpace(out))
	}
	return out, nil
}

func parseModel(txt string, res map[string]uint64) error {
	// ((name value) (name value) ...)
	toks := tokenize(txt)
	i := 0
	if i >= len(toks) || toks[i] != "(" {
		return fmt.Errorf("bad model")
	}
	i++
	for i < len(toks) && toks[i] == "(" {
		i++
		name := toks[i]
		i++
		var val uint64
		switch {
		case toks[i] == "true":
			val = 1
			i++
		case toks[i] == "false":
			val = 0
			i++
		case strings.HasPrefix(toks[i], "#x"):
			v, err := strconv.ParseUint(toks[i][2:], 16, 64)
			if err != nil {
				return err
			}
			val = v
			i++
		case strings.HasPrefix(toks[i], "#b"):
			v, err := strconv.ParseUint(toks[i][2:], 2, 64)
			if err != nil {
				return err
			}
			val = v
			i++
		case toks[i] == "(":
			// (_ bvN w)
			if i+3 < len(toks) && toks[i+1] == "_" && strings.HasPrefix(toks[i+2], "bv") {
				v, err := strconv.ParseUint(toks[i+2][2:], 10, 64)
				if err != nil {
					return err
				}
				val = v
				i += 5
			} else {
				return fmt.Errorf("unsupported model value at %q", toks[i+1])
			}
		default:
			return fmt.Errorf("unsupported model value %q", toks[i])
		}
		if toks[i] != ")" {
			return fmt.Errorf("expected )")
		}
		i++
		res[name] = val
	}
	return nil
}

func tokenize(s string) []string {
	var out []string
	cur := strings.Builder{}
	flush := func() {
		if cur.Len() > 0 {
			out = append(out, cur.String())
			cur.Reset()
		}
	}
	for _, ch := range s {
		switch ch {
		case '(', ')':
			flush()
			out = append(out, string(ch))
		case ' ', '\n', '\t', '\r':
			flush()
		default:
			cur.WriteRune(ch)
		}
	}
	flush()
	return out
}
