// Package smt is a small hash-consed term library (bit-vectors up to 64 bits,
// Booleans, Float64) with a syntactic simplifier, an evaluator and an SMT-LIB2
// printer. It is the formula side of the gosym symbolic executor.
package smt

import (
	"fmt"
	"math"
	"math/bits"
	"strings"
)

type Op uint8

const (
	OpConst Op = iota
	OpVar
	OpAdd
	OpSub
	OpMul
	OpUDiv
	OpURem
	OpSDiv
	OpSRem
	OpAnd
	OpOr
	OpXor
	OpNot
	OpNeg
	OpShl
	OpLShr
	OpAShr
	OpConcat
	OpExtract
	OpZExt
	OpSExt
	OpIte
	OpBNot
	OpBAnd
	OpBOr
	OpEq
	OpUlt
	OpUle
	OpSlt
	OpSle
	// floating point (Float64 only)
	OpFPFromSBV // RNE
	OpFPFromUBV // RNE
	OpFPDiv     // RNE
	OpFPAdd
	OpFPSub
	OpFPMul
	OpFPNeg
	OpFPRoundAway // roundToIntegral RNA  (math.Round)
	OpFPRoundZero // roundToIntegral RTZ  (math.Trunc)
	OpFPToSBV     // RTZ, width in A
	OpFPToUBV     // RTZ, width in A
	OpFPLt
	OpFPLe
	OpFPEq
	OpFPIsNaN
)

var opNames = map[Op]string{
	OpAdd: "bvadd", OpSub: "bvsub", OpMul: "bvmul", OpUDiv: "bvudiv", OpURem: "bvurem",
	OpSDiv: "bvsdiv", OpSRem: "bvsrem", OpAnd: "bvand", OpOr: "bvor", OpXor: "bvxor",
	OpNot: "bvnot", OpNeg: "bvneg", OpShl: "bvshl", OpLShr: "bvlshr", OpAShr: "bvashr",
	OpConcat: "concat", OpIte: "ite", OpBNot: "not", OpBAnd: "and", OpBOr: "or", OpEq: "=",
	OpUlt: "bvult", OpUle: "bvule", OpSlt: "bvslt", OpSle: "bvsle",
	OpFPLt: "fp.lt", OpFPLe: "fp.leq", OpFPEq: "fp.eq", OpFPIsNaN: "fp.isNaN", OpFPNeg: "fp.neg",
}

// Sorts: W > 0 bit-vector of that width; W == 0 Bool; W == SortF64 Float64.
const SortF64 = -64

type Term struct {
	Op   Op
	W    int
	Args []*Term
	Val  uint64 // constants (bool: 0/1; fp: bits)
	Name string // variables
	A, B int    // extract hi/lo; FPTo*BV width
	ID   int
	HasFP bool
}

type key struct {
	op         Op
	w, a, b    int
	val        uint64
	name       string
	x0, x1, x2 int
}

// Ctx owns the hash-consing table; one per explored path.
type Ctx struct {
	tab   map[key]*Term
	next  int
	Vars  []*Term
	varBy map[string]*Term
}

func NewCtx() *Ctx {
	return &Ctx{tab: make(map[key]*Term), varBy: map[string]*Term{}}
}

func (c *Ctx) mk(op Op, w int, val uint64, name string, a, b int, args ...*Term) *Term {
	k := key{op: op, w: w, a: a, b: b, val: val, name: name, x0: -1, x1: -1, x2: -1}
	fp := w == SortF64
	for i, x := range args {
		if x.HasFP {
			fp = true
		}
		switch i {
		case 0:
			k.x0 = x.ID
		case 1:
			k.x1 = x.ID
		case 2:
			k.x2 = x.ID
		}
	}
	if t, ok := c.tab[k]; ok {
		return t
	}
	t := &Term{Op: op, W: w, Args: args, Val: val, Name: name, A: a, B: b, ID: c.next, HasFP: fp}
	c.next++
	c.tab[k] = t
	return t
}

func (c *Ctx) NumTerms() int { return c.next }

func Mask(w int) uint64 {
	if w >= 64 {
		return ^uint64(0)
	}
	return (uint64(1) << uint(w)) - 1
}

func signExt(v uint64, w int) int64 {
	if w >= 64 {
		return int64(v)
	}
	sh := uint(64 - w)
	return int64(v<<sh) >> sh
}

func (t *Term) IsConst() bool { return t.Op == OpConst }
func (t *Term) IsTrue() bool  { return t.Op == OpConst && t.W == 0 && t.Val == 1 }
func (t *Term) IsFalse() bool { return t.Op == OpConst && t.W == 0 && t.Val == 0 }

func (c *Ctx) BV(w int, v uint64) *Term { return c.mk(OpConst, w, v&Mask(w), "", 0, 0) }
func (c *Ctx) Bool(b bool) *Term {
	if b {
		return c.mk(OpConst, 0, 1, "", 0, 0)
	}
	return c.mk(OpConst, 0, 0, "", 0, 0)
}
func (c *Ctx) F64(f float64) *Term { return c.mk(OpConst, SortF64, math.Float64bits(f), "", 0, 0) }

func (c *Ctx) Var(name string, w int) *Term {
	if t, ok := c.varBy[name]; ok {
		if t.W != w {
			panic("smt: variable " + name + " redeclared with another sort")
		}
		return t
	}
	t := c.mk(OpVar, w, 0, name, 0, 0)
	c.varBy[name] = t
	c.Vars = append(c.Vars, t)
	return t
}

// ---------------------------------------------------------------- bit-vectors

// iteConstTree reports whether t is a constant or an ite whose leaves are all
// constants (at most 8 leaves): such terms arise from symbolic choices among a
// few concrete bytes (letter case, separators) and operators are pushed inside.
func iteConstTree(t *Term, budget *int) bool {
	if t.Op == OpConst {
		*budget--
		return *budget >= 0
	}
	if t.Op == OpIte {
		return iteConstTree(t.Args[1], budget) && iteConstTree(t.Args[2], budget)
	}
	return false
}

func isIteTree(t *Term) bool {
	if t.Op != OpIte {
		return false
	}
	b := 8
	return iteConstTree(t, &b)
}

// liftIte applies f to the leaves of the ite-constant tree t.
func (c *Ctx) liftIte(t *Term, f func(leaf *Term) *Term) *Term {
	if t.Op == OpConst {
		return f(t)
	}
	return c.Ite(t.Args[0], c.liftIte(t.Args[1], f), c.liftIte(t.Args[2], f))
}

func (c *Ctx) bin(op Op, x, y *Term) *Term {
	if x.W != y.W {
		panic(fmt.Sprintf("smt: width mismatch %v: %d vs %d", opNames[op], x.W, y.W))
	}
	w := x.W
	if x.IsConst() && y.IsConst() {
		if v, ok := foldBin(op, w, x.Val, y.Val); ok {
			return c.BV(w, v)
		}
	}
	if y.IsConst() && isIteTree(x) {
		return c.liftIte(x, func(l *Term) *Term { return c.bin(op, l, y) })
	}
	if x.IsConst() && isIteTree(y) {
		return c.liftIte(y, func(l *Term) *Term { return c.bin(op, x, l) })
	}
	switch op {
	case OpAdd:
		if x.IsConst() && x.Val == 0 {
			return y
		}
		if y.IsConst() && y.Val == 0 {
			return x
		}
		// (x + c1) + c2
		if y.IsConst() && x.Op == OpAdd && x.Args[1].IsConst() {
			return c.bin(OpAdd, x.Args[0], c.BV(w, x.Args[1].Val+y.Val))
		}
	case OpSub:
		if y.IsConst() && y.Val == 0 {
			return x
		}
		if x == y {
			return c.BV(w, 0)
		}
		if y.IsConst() {
			return c.bin(OpAdd, x, c.BV(w, -y.Val))
		}
	case OpMul:
		if x.IsConst() && x.Val == 1 {
			return y
		}
		if y.IsConst() && y.Val == 1 {
			return x
		}
		if (x.IsConst() && x.Val == 0) || (y.IsConst() && y.Val == 0) {
			return c.BV(w, 0)
		}
	case OpAnd:
		if x == y {
			return x
		}
		if x.IsConst() {
			x, y = y, x
		}
		if y.IsConst() {
			if y.Val == 0 {
				return y
			}
			if y.Val == Mask(w) {
				return x
			}
			// x & lowmask  ==> zext(extract)
			if n := bits.TrailingZeros64(^y.Val); y.Val == Mask(n) && n < w {
				return c.ZExt(c.Extract(x, n-1, 0), w)
			}
		}
	case OpOr:
		if x == y {
			return x
		}
		if x.IsConst() {
			x, y = y, x
		}
		if y.IsConst() {
			if y.Val == 0 {
				return x
			}
			if y.Val == Mask(w) {
				return y
			}
		}
		// zext(a) | (zext(b) << k)   is left to the solver, except the exact byte-assembly shape
		if r := c.orAsConcat(x, y); r != nil {
			return r
		}
	case OpXor:
		if x == y {
			return c.BV(w, 0)
		}
		if y.IsConst() && y.Val == 0 {
			return x
		}
		if x.IsConst() && x.Val == 0 {
			return y
		}
	case OpShl:
		if y.IsConst() {
			if y.Val == 0 {
				return x
			}
			if y.Val >= uint64(w) {
				return c.BV(w, 0)
			}
			k := int(y.Val)
			return c.Concat(c.Extract(x, w-1-k, 0), c.BV(k, 0))
		}
	case OpLShr:
		if y.IsConst() {
			if y.Val == 0 {
				return x
			}
			if y.Val >= uint64(w) {
				return c.BV(w, 0)
			}
			k := int(y.Val)
			return c.ZExt(c.Extract(x, w-1, k), w)
		}
	case OpAShr:
		if y.IsConst() {
			if y.Val == 0 {
				return x
			}
			k := int(y.Val)
			if k >= w {
				k = w - 1
			}
			return c.SExt(c.Extract(x, w-1, k), w)
		}
	}
	return c.mk(op, w, 0, "", 0, 0, x, y)
}

// lowZeros returns how many low bits of t are syntactically zero, and knownWidth
// the number of low bits outside of which t is syntactically zero.
func lowZeros(t *Term) int {
	switch t.Op {
	case OpConst:
		if t.Val == 0 {
			return t.W
		}
		return bits.TrailingZeros64(t.Val)
	case OpConcat:
		lo := t.Args[1]
		z := lowZeros(lo)
		if z == lo.W {
			return z + lowZeros(t.Args[0])
		}
		return z
	case OpZExt:
		z := lowZeros(t.Args[0])
		if z == t.Args[0].W {
			return t.W
		}
		return z
	}
	return 0
}

func highZeros(t *Term) int {
	switch t.Op {
	case OpConst:
		return bits.LeadingZeros64(t.Val) - (64 - t.W)
	case OpZExt:
		return t.W - t.Args[0].W + highZeros(t.Args[0])
	case OpConcat:
		hi := t.Args[0]
		z := highZeros(hi)
		if z == hi.W {
			return z + highZeros(t.Args[1])
		}
		return z
	}
	return 0
}

// orAsConcat recognises x|y where the non-zero bit ranges of x and y are
// syntactically disjoint and adjacent-or-separated (byte assembly:
// uint32(b0) | uint32(b1)<<8 | ...).
func (c *Ctx) orAsConcat(x, y *Term) *Term {
	w := x.W
	lx, ly := lowZeros(x), lowZeros(y)
	if lx < ly {
		x, y = y, x
		lx, ly = ly, lx
	}
	// x occupies [lx, w-hx), y occupies [ly, w-hy); need y entirely below lx
	hy := highZeros(y)
	if lx == 0 || w-hy > lx {
		return nil
	}
	hi := c.Extract(x, w-1, lx)
	lo := c.Extract(y, lx-1, 0)
	return c.Concat(hi, lo)
}

func foldBin(op Op, w int, a, b uint64) (uint64, bool) {
	m := Mask(w)
	switch op {
	case OpAdd:
		return (a + b) & m, true
	case OpSub:
		return (a - b) & m, true
	case OpMul:
		return (a * b) & m, true
	case OpUDiv:
		if b == 0 {
			return m, true
		}
		return a / b, true
	case OpURem:
		if b == 0 {
			return a, true
		}
		return a % b, true
	case OpSDiv:
		sa, sb := signExt(a, w), signExt(b, w)
		if sb == 0 {
			if sa < 0 {
				return 1, true
			}
			return m, true
		}
		if sb == -1 {
			return uint64(-sa) & m, true
		}
		return uint64(sa/sb) & m, true
	case OpSRem:
		sa, sb := signExt(a, w), signExt(b, w)
		if sb == 0 {
			return a, true
		}
		if sb == -1 {
			return 0, true
		}
		return uint64(sa%sb) & m, true
	case OpAnd:
		return a & b, true
	case OpOr:
		return a | b, true
	case OpXor:
		return a ^ b, true
	case OpShl:
		if b >= uint64(w) {
			return 0, true
		}
		return (a << b) & m, true
	case OpLShr:
		if b >= uint64(w) {
			return 0, true
		}
		return a >> b, true
	case OpAShr:
		sa := signExt(a, w)
		if b >= uint64(w) {
			b = uint64(w - 1)
		}
		return uint64(sa>>b) & m, true
	}
	return 0, false
}

func (c *Ctx) Add(x, y *Term) *Term  { return c.bin(OpAdd, x, y) }
func (c *Ctx) Sub(x, y *Term) *Term  { return c.bin(OpSub, x, y) }
func (c *Ctx) Mul(x, y *Term) *Term  { return c.bin(OpMul, x, y) }
func (c *Ctx) UDiv(x, y *Term) *Term { return c.bin(OpUDiv, x, y) }
func (c *Ctx) URem(x, y *Term) *Term { return c.bin(OpURem, x, y) }
func (c *Ctx) SDiv(x, y *Term) *Term { return c.bin(OpSDiv, x, y) }
func (c *Ctx) SRem(x, y *Term) *Term { return c.bin(OpSRem, x, y) }
func (c *Ctx) And(x, y *Term) *Term  { return c.bin(OpAnd, x, y) }
func (c *Ctx) Or(x, y *Term) *Term   { return c.bin(OpOr, x, y) }
func (c *Ctx) Xor(x, y *Term) *Term  { return c.bin(OpXor, x, y) }
func (c *Ctx) Shl(x, y *Term) *Term  { return c.bin(OpShl, x, y) }
func (c *Ctx) LShr(x, y *Term) *Term { return c.bin(OpLShr, x, y) }
func (c *Ctx) AShr(x, y *Term) *Term { return c.bin(OpAShr, x, y) }

func (c *Ctx) Not(x *Term) *Term {
	if x.IsConst() {
		return c.BV(x.W, ^x.Val)
	}
	if x.Op == OpNot {
		return x.Args[0]
	}
	return c.mk(OpNot, x.W, 0, "", 0, 0, x)
}

func (c *Ctx) Neg(x *Term) *Term {
	if x.IsConst() {
		return c.BV(x.W, -x.Val)
	}
	return c.mk(OpNeg, x.W, 0, "", 0, 0, x)
}

func (c *Ctx) Concat(hi, lo *Term) *Term {
	w := hi.W + lo.W
	if w > 64 {
		panic("smt: concat wider than 64 bits")
	}
	if hi.IsConst() && lo.IsConst() {
		return c.BV(w, hi.Val<<uint(lo.W)|lo.Val)
	}
	if hi.Op == OpExtract && lo.Op == OpExtract && hi.Args[0] == lo.Args[0] && hi.B == lo.A+1 {
		return c.Extract(hi.Args[0], hi.A, lo.B)
	}
	// concat(a, concat(extract.., rest)) where a and the extract join up
	if hi.Op == OpExtract && lo.Op == OpConcat {
		l0 := lo.Args[0]
		if l0.Op == OpExtract && l0.Args[0] == hi.Args[0] && hi.B == l0.A+1 {
			return c.Concat(c.Extract(hi.Args[0], hi.A, l0.B), lo.Args[1])
		}
	}
	if hi.IsConst() && hi.Val == 0 {
		return c.ZExt(lo, w)
	}
	return c.mk(OpConcat, w, 0, "", 0, 0, hi, lo)
}

func (c *Ctx) Extract(x *Term, hi, lo int) *Term {
	if hi < lo || lo < 0 || hi >= x.W {
		panic(fmt.Sprintf("smt: bad extract [%d:%d] of width %d", hi, lo, x.W))
	}
	w := hi - lo + 1
	if w == x.W {
		return x
	}
	switch x.Op {
	case OpConst:
		return c.BV(w, x.Val>>uint(lo))
	case OpExtract:
		return c.Extract(x.Args[0], x.B+hi, x.B+lo)
	case OpConcat:
		a, b := x.Args[0], x.Args[1]
		if hi < b.W {
			return c.Extract(b, hi, lo)
		}
		if lo >= b.W {
			return c.Extract(a, hi-b.W, lo-b.W)
		}
		return c.Concat(c.Extract(a, hi-b.W, 0), c.Extract(b, b.W-1, lo))
	case OpZExt:
		y := x.Args[0]
		if hi < y.W {
			return c.Extract(y, hi, lo)
		}
		if lo >= y.W {
			return c.BV(w, 0)
		}
		return c.ZExt(c.Extract(y, y.W-1, lo), w)
	case OpSExt:
		y := x.Args[0]
		if hi < y.W {
			return c.Extract(y, hi, lo)
		}
		if lo < y.W {
			return c.SExt(c.Extract(y, y.W-1, lo), w)
		}
	case OpIte:
		if isIteTree(x) {
			return c.liftIte(x, func(l *Term) *Term { return c.Extract(l, hi, lo) })
		}
	case OpAnd, OpOr, OpXor:
		if lo == 0 || x.Args[1].IsConst() {
			return c.bin(x.Op, c.Extract(x.Args[0], hi, lo), c.Extract(x.Args[1], hi, lo))
		}
	case OpAdd, OpSub, OpMul:
		if lo == 0 {
			return c.bin(x.Op, c.Extract(x.Args[0], hi, 0), c.Extract(x.Args[1], hi, 0))
		}
	}
	return c.mk(OpExtract, w, 0, "", hi, lo, x)
}

func (c *Ctx) ZExt(x *Term, w int) *Term {
	if w == x.W {
		return x
	}
	if w < x.W {
		panic("smt: zext to narrower width")
	}
	if x.IsConst() {
		return c.BV(w, x.Val)
	}
	if x.Op == OpZExt {
		return c.ZExt(x.Args[0], w)
	}
	if isIteTree(x) {
		return c.liftIte(x, func(l *Term) *Term { return c.BV(w, l.Val) })
	}
	return c.mk(OpZExt, w, 0, "", 0, 0, x)
}

func (c *Ctx) SExt(x *Term, w int) *Term {
	if w == x.W {
		return x
	}
	if w < x.W {
		panic("smt: sext to narrower width")
	}
	if x.IsConst() {
		return c.BV(w, uint64(signExt(x.Val, x.W)))
	}
	if x.Op == OpSExt {
		return c.SExt(x.Args[0], w)
	}
	if x.Op == OpZExt {
		return c.ZExt(x.Args[0], w)
	}
	if isIteTree(x) {
		return c.liftIte(x, func(l *Term) *Term { return c.SExt(l, w) })
	}
	return c.mk(OpSExt, w, 0, "", 0, 0, x)
}

func (c *Ctx) Ite(cond, a, b *Term) *Term {
	if cond.IsTrue() {
		return a
	}
	if cond.IsFalse() {
		return b
	}
	if a == b {
		return a
	}
	if a.W == 0 {
		if a.IsTrue() && b.IsFalse() {
			return cond
		}
		if a.IsFalse() && b.IsTrue() {
			return c.BNot(cond)
		}
	}
	return c.mk(OpIte, a.W, 0, "", 0, 0, cond, a, b)
}

// ---------------------------------------------------------------- Booleans

func (c *Ctx) BNot(x *Term) *Term {
	if x.IsConst() {
		return c.Bool(x.Val == 0)
	}
	if x.Op == OpBNot {
		return x.Args[0]
	}
	return c.mk(OpBNot, 0, 0, "", 0, 0, x)
}

func (c *Ctx) BAnd(x, y *Term) *Term {
	if x.IsFalse() || y.IsFalse() {
		return c.Bool(false)
	}
	if x.IsTrue() {
		return y
	}
	if y.IsTrue() || x == y {
		return x
	}
	return c.mk(OpBAnd, 0, 0, "", 0, 0, x, y)
}

func (c *Ctx) BOr(x, y *Term) *Term {
	if x.IsTrue() || y.IsTrue() {
		return c.Bool(true)
	}
	if x.IsFalse() {
		return y
	}
	if y.IsFalse() || x == y {
		return x
	}
	return c.mk(OpBOr, 0, 0, "", 0, 0, x, y)
}

func (c *Ctx) Eq(x, y *Term) *Term {
	if x.W != y.W {
		panic(fmt.Sprintf("smt: eq sort mismatch %d vs %d", x.W, y.W))
	}
	if x == y {
		if x.W == SortF64 {
			// structural equality of FP terms is not IEEE equality; callers use FPEq
			return c.mk(OpEq, 0, 0, "", 0, 0, x, y)
		}
		return c.Bool(true)
	}
	if x.IsConst() && y.IsConst() {
		return c.Bool(x.Val == y.Val)
	}
	if x.IsConst() {
		x, y = y, x
	}
	if y.IsConst() && x.W > 0 && isIteTree(x) {
		return c.liftIte(x, func(l *Term) *Term { return c.Bool(l.Val == y.Val) })
	}
	if x.W == 0 {
		if y.IsTrue() {
			return x
		}
		if y.IsFalse() {
			return c.BNot(x)
		}
	}
	if x.Op == OpZExt && y.Op == OpZExt && x.Args[0].W == y.Args[0].W {
		return c.Eq(x.Args[0], y.Args[0])
	}
	if y.IsConst() && x.W > 0 {
		switch x.Op {
		case OpZExt:
			in := x.Args[0]
			if y.Val > Mask(in.W) {
				return c.Bool(false)
			}
			return c.Eq(in, c.BV(in.W, y.Val))
		case OpSExt:
			in := x.Args[0]
			if uint64(signExt(y.Val&Mask(in.W), in.W))&Mask(x.W) != y.Val {
				return c.Bool(false)
			}
			return c.Eq(in, c.BV(in.W, y.Val))
		case OpConcat:
			a, b := x.Args[0], x.Args[1]
			return c.BAnd(c.Eq(a, c.BV(a.W, y.Val>>uint(b.W))), c.Eq(b, c.BV(b.W, y.Val)))
		case OpIte:
			if x.Args[1].IsConst() && x.Args[2].IsConst() {
				t, e := x.Args[1].Val == y.Val, x.Args[2].Val == y.Val
				switch {
				case t && e:
					return c.Bool(true)
				case t:
					return x.Args[0]
				case e:
					return c.BNot(x.Args[0])
				default:
					return c.Bool(false)
				}
			}
		case OpAdd:
			if x.Args[1].IsConst() {
				return c.Eq(x.Args[0], c.BV(x.W, y.Val-x.Args[1].Val))
			}
		}
	}
	if x.ID > y.ID && !y.IsConst() {
		x, y = y, x
	}
	return c.mk(OpEq, 0, 0, "", 0, 0, x, y)
}

func (c *Ctx) cmp(op Op, x, y *Term) *Term {
	if x.W != y.W {
		panic("smt: cmp width mismatch")
	}
	if x.IsConst() && y.IsConst() {
		var r bool
		switch op {
		case OpUlt:
			r = x.Val < y.Val
		case OpUle:
			r = x.Val <= y.Val
		case OpSlt:
			r = signExt(x.Val, x.W) < signExt(y.Val, y.W)
		case OpSle:
			r = signExt(x.Val, x.W) <= signExt(y.Val, y.W)
		}
		return c.Bool(r)
	}
	if x == y {
		return c.Bool(op == OpUle || op == OpSle)
	}
	if y.IsConst() && isIteTree(x) {
		return c.liftIte(x, func(l *Term) *Term { return c.cmp(op, l, y) })
	}
	if x.IsConst() && isIteTree(y) {
		return c.liftIte(y, func(l *Term) *Term { return c.cmp(op, x, l) })
	}
	switch op {
	case OpUlt:
		if y.IsConst() && y.Val == 0 {
			return c.Bool(false)
		}
		if x.IsConst() && x.Val == Mask(x.W) {
			return c.Bool(false)
		}
	case OpUle:
		if x.IsConst() && x.Val == 0 {
			return c.Bool(true)
		}
		if y.IsConst() && y.Val == Mask(y.W) {
			return c.Bool(true)
		}
	}
	// comparisons of zero-extended narrow values against constants
	if (op == OpUlt || op == OpUle || op == OpSlt || op == OpSle) && x.Op == OpZExt && y.IsConst() {
		in := x.Args[0]
		sy := signExt(y.Val, y.W)
		if (op == OpSlt || op == OpSle) && sy < 0 {
			return c.Bool(false)
		}
		if y.Val > Mask(in.W) && (op == OpUlt || op == OpUle || sy >= 0) {
			return c.Bool(true)
		}
		if op == OpSlt || op == OpUlt {
			return c.cmp(OpUlt, in, c.BV(in.W, y.Val))
		}
		return c.cmp(OpUle, in, c.BV(in.W, y.Val))
	}
	if (op == OpUlt || op == OpUle || op == OpSlt || op == OpSle) && y.Op == OpZExt && x.IsConst() {
		in := y.Args[0]
		sx := signExt(x.Val, x.W)
		if (op == OpSlt || op == OpSle) && sx < 0 {
			return c.Bool(true)
		}
		if x.Val > Mask(in.W) {
			return c.Bool(false)
		}
		if op == OpSlt || op == OpUlt {
			return c.cmp(OpUlt, c.BV(in.W, x.Val), in)
		}
		return c.cmp(OpUle, c.BV(in.W, x.Val), in)
	}
	return c.mk(op, 0, 0, "", 0, 0, x, y)
}

func (c *Ctx) Ult(x, y *Term) *Term { return c.cmp(OpUlt, x, y) }
func (c *Ctx) Ule(x, y *Term) *Term { return c.cmp(OpUle, x, y) }
func (c *Ctx) Slt(x, y *Term) *Term { return c.cmp(OpSlt, x, y) }
func (c *Ctx) Sle(x, y *Term) *Term { return c.cmp(OpSle, x, y) }

// ---------------------------------------------------------------- floating point

func (c *Ctx) FPFromSBV(x *Term) *Term {
	if x.IsConst() {
		return c.F64(float64(signExt(x.Val, x.W)))
	}
	return c.mk(OpFPFromSBV, SortF64, 0, "", 0, 0, x)
}
func (c *Ctx) FPFromUBV(x *Term) *Term {
	if x.IsConst() {
		return c.F64(float64(x.Val))
	}
	return c.mk(OpFPFromUBV, SortF64, 0, "", 0, 0, x)
}
func (c *Ctx) fpbin(op Op, x, y *Term) *Term {
	if x.IsConst() && y.IsConst() {
		a, b := math.Float64frombits(x.Val), math.Float64frombits(y.Val)
		switch op {
		case OpFPDiv:
			return c.F64(a / b)
		case OpFPAdd:
			return c.F64(a + b)
		case OpFPSub:
			return c.F64(a - b)
		case OpFPMul:
			return c.F64(a * b)
		}
	}
	return c.mk(op, SortF64, 0, "", 0, 0, x, y)
}
func (c *Ctx) FPDiv(x, y *Term) *Term { return c.fpbin(OpFPDiv, x, y) }
func (c *Ctx) FPAdd(x, y *Term) *Term { return c.fpbin(OpFPAdd, x, y) }
func (c *Ctx) FPSub(x, y *Term) *Term { return c.fpbin(OpFPSub, x, y) }
func (c *Ctx) FPMul(x, y *Term) *Term { return c.fpbin(OpFPMul, x, y) }
func (c *Ctx) FPNeg(x *Term) *Term {
	if x.IsConst() {
		return c.F64(-math.Float64frombits(x.Val))
	}
	return c.mk(OpFPNeg, SortF64, 0, "", 0, 0, x)
}
func (c *Ctx) FPRoundAway(x *Term) *Term {
	if x.IsConst() {
		return c.F64(math.Round(math.Float64frombits(x.Val)))
	}
	return c.mk(OpFPRoundAway, SortF64, 0, "", 0, 0, x)
}
func (c *Ctx) FPRoundZero(x *Term) *Term {
	if x.IsConst() {
		return c.F64(math.Trunc(math.Float64frombits(x.Val)))
	}
	return c.mk(OpFPRoundZero, SortF64, 0, "", 0, 0, x)
}
func (c *Ctx) FPToSBV(x *Term, w int) *Term {
	return c.mk(OpFPToSBV, w, 0, "", w, 0, x)
}
func (c *Ctx) FPToUBV(x *Term, w int) *Term {
	return c.mk(OpFPToUBV, w, 0, "", w, 0, x)
}
func (c *Ctx) fpcmp(op Op, x, y *Term) *Term {
	if x.IsConst() && y.IsConst() {
		a, b := math.Float64frombits(x.Val), math.Float64frombits(y.Val)
		switch op {
		case OpFPLt:
			return c.Bool(a < b)
		case OpFPLe:
			return c.Bool(a <= b)
		case OpFPEq:
			return c.Bool(a == b)
		}
	}
	return c.mk(op, 0, 0, "", 0, 0, x, y)
}
func (c *Ctx) FPLt(x, y *Term) *Term { return c.fpcmp(OpFPLt, x, y) }
func (c *Ctx) FPLe(x, y *Term) *Term { return c.fpcmp(OpFPLe, x, y) }
func (c *Ctx) FPEq(x, y *Term) *Term { return c.fpcmp(OpFPEq, x, y) }
func (c *Ctx) FPIsNaN(x *Term) *Term {
	if x.IsConst() {
		return c.Bool(math.IsNaN(math.Float64frombits(x.Val)))
	}
	return c.mk(OpFPIsNaN, 0, 0, "", 0, 0, x)
}

// ---------------------------------------------------------------- printing

func SortString(w int) string {
	switch {
	case w == 0:
		return "Bool"
	case w == SortF64:
		return "(_ FloatingPoint 11 53)"
	default:
		return fmt.Sprintf("(_ BitVec %d)", w)
	}
}

func constString(t *Term) string {
	switch {
	case t.W == 0:
		if t.Val == 1 {
			return "true"
		}
		return "false"
	case t.W == SortF64:
		b := t.Val
		return fmt.Sprintf("(fp #b%b #b%011b #b%052b)", b>>63, (b>>52)&0x7ff, b&((1<<52)-1))
	case t.W%4 == 0:
		return fmt.Sprintf("#x%0*x", t.W/4, t.Val)
	default:
		return fmt.Sprintf("#b%0*b", t.W, t.Val)
	}
}

// Ref is how a term is referred to inside other terms once defined.
func (t *Term) Ref() string {
	switch t.Op {
	case OpConst:
		return constString(t)
	case OpVar:
		return t.Name
	}
	return fmt.Sprintf("t%d", t.ID)
}

// Body is the SMT-LIB expression of t over the Refs of its children.
func (t *Term) Body() string {
	var sb strings.Builder
	arg := func(i int) string { return t.Args[i].Ref() }
	switch t.Op {
	case OpConst, OpVar:
		return t.Ref()
	case OpExtract:
		fmt.Fprintf(&sb, "((_ extract %d %d) %s)", t.A, t.B, arg(0))
	case OpZExt:
		fmt.Fprintf(&sb, "((_ zero_extend %d) %s)", t.W-t.Args[0].W, arg(0))
	case OpSExt:
		fmt.Fprintf(&sb, "((_ sign_extend %d) %s)", t.W-t.Args[0].W, arg(0))
	case OpFPFromSBV:
		fmt.Fprintf(&sb, "((_ to_fp 11 53) RNE %s)", arg(0))
	case OpFPFromUBV:
		fmt.Fprintf(&sb, "((_ to_fp_unsigned 11 53) RNE %s)", arg(0))
	case OpFPDiv:
		fmt.Fprintf(&sb, "(fp.div RNE %s %s)", arg(0), arg(1))
	case OpFPAdd:
		fmt.Fprintf(&sb, "(fp.add RNE %s %s)", arg(0), arg(1))
	case OpFPSub:
		fmt.Fprintf(&sb, "(fp.sub RNE %s %s)", arg(0), arg(1))
	case OpFPMul:
		fmt.Fprintf(&sb, "(fp.mul RNE %s %s)", arg(0), arg(1))
	case OpFPRoundAway:
		fmt.Fprintf(&sb, "(fp.roundToIntegral RNA %s)", arg(0))
	case OpFPRoundZero:
		fmt.Fprintf(&sb, "(fp.roundToIntegral RTZ %s)", arg(0))
	case OpFPToSBV:
		fmt.Fprintf(&sb, "((_ fp.to_sbv %d) RTZ %s)", t.A, arg(0))
	case OpFPToUBV:
		fmt.Fprintf(&sb, "((_ fp.to_ubv %d) RTZ %s)", t.A, arg(0))
	default:
		name, ok := opNames[t.Op]
		if !ok {
			panic(fmt.Sprintf("smt: no printer for op %d", t.Op))
		}
		sb.WriteByte('(')
		sb.WriteString(name)
		for i := range t.Args {
			sb.WriteByte(' ')
			sb.WriteString(arg(i))
		}
		sb.WriteByte(')')
	}
	return sb.String()
}

// String renders t fully inline (for diagnostics and evidence samples).
func (t *Term) String() string {
	if t.Op == OpConst || t.Op == OpVar {
		return t.Ref()
	}
	var sb strings.Builder
	var rec func(t *Term, depth int)
	rec = func(t *Term, depth int) {
		if t.Op == OpConst || t.Op == OpVar {
			sb.WriteString(t.Ref())
			return
		}
		if depth > 6 {
			sb.WriteString("…")
			return
		}
		switch t.Op {
		case OpExtract:
			fmt.Fprintf(&sb, "((_ extract %d %d) ", t.A, t.B)
		case OpZExt:
			sb.WriteString("(zext ")
		case OpSExt:
			sb.WriteString("(sext ")
		default:
			n := opNames[t.Op]
			if n == "" {
				n = fmt.Sprintf("op%d", t.Op)
			}
			sb.WriteString("(" + n + " ")
		}
		for i, a := range t.Args {
			if i > 0 {
				sb.WriteByte(' ')
			}
			rec(a, depth+1)
		}
		sb.WriteByte(')')
	}
	rec(t, 0)
	return sb.String()
}

// ---------------------------------------------------------------- evaluation

// Eval evaluates t under env (variable name -> value). Missing variables are 0.
func Eval(t *Term, env map[string]uint64, memo map[int]uint64) uint64 {
	if v, ok := memo[t.ID]; ok {
		return v
	}
	var r uint64
	ev := func(i int) uint64 { return Eval(t.Args[i], env, memo) }
	f := func(i int) float64 { return math.Float64frombits(ev(i)) }
	b2u := func(b bool) uint64 {
		if b {
			return 1
		}
		return 0
	}
	switch t.Op {
	case OpConst:
		r = t.Val
	case OpVar:
		r = env[t.Name] & maskSort(t.W)
	case OpAdd, OpSub, OpMul, OpUDiv, OpURem, OpSDiv, OpSRem, OpAnd, OpOr, OpXor, OpShl, OpLShr, OpAShr:
		r, _ = foldBin(t.Op, t.W, ev(0), ev(1))
	case OpNot:
		r = ^ev(0) & Mask(t.W)
	case OpNeg:
		r = -ev(0) & Mask(t.W)
	case OpConcat:
		r = ev(0)<<uint(t.Args[1].W) | ev(1)
	case OpExtract:
		r = (ev(0) >> uint(t.B)) & Mask(t.W)
	case OpZExt:
		r = ev(0)
	case OpSExt:
		r = uint64(signExt(ev(0), t.Args[0].W)) & Mask(t.W)
	case OpIte:
		if ev(0) != 0 {
			r = ev(1)
		} else {
			r = ev(2)
		}
	case OpBNot:
		r = b2u(ev(0) == 0)
	case OpBAnd:
		r = b2u(ev(0) != 0 && ev(1) != 0)
	case OpBOr:
		r = b2u(ev(0) != 0 || ev(1) != 0)
	case OpEq:
		if t.Args[0].W == SortF64 {
			// SMT-LIB '=' on FP: identical except all NaNs equal
			a, b := f(0), f(1)
			r = b2u(ev(0) == ev(1) || (math.IsNaN(a) && math.IsNaN(b)))
		} else {
			r = b2u(ev(0) == ev(1))
		}
	case OpUlt:
		r = b2u(ev(0) < ev(1))
	case OpUle:
		r = b2u(ev(0) <= ev(1))
	case OpSlt:
		r = b2u(signExt(ev(0), t.Args[0].W) < signExt(ev(1), t.Args[0].W))
	case OpSle:
		r = b2u(signExt(ev(0), t.Args[0].W) <= signExt(ev(1), t.Args[0].W))
	case OpFPFromSBV:
		r = math.Float64bits(float64(signExt(ev(0), t.Args[0].W)))
	case OpFPFromUBV:
		r = math.Float64bits(float64(ev(0)))
	case OpFPDiv:
		r = math.Float64bits(f(0) / f(1))
	case OpFPAdd:
		r = math.Float64bits(f(0) + f(1))
	case OpFPSub:
		r = math.Float64bits(f(0) - f(1))
	case OpFPMul:
		r = math.Float64bits(f(0) * f(1))
	case OpFPNeg:
		r = math.Float64bits(-f(0))
	case OpFPRoundAway:
		r = math.Float64bits(math.Round(f(0)))
	case OpFPRoundZero:
		r = math.Float64bits(math.Trunc(f(0)))
	case OpFPToSBV:
		r = uint64(int64(f(0))) & Mask(t.W)
	case OpFPToUBV:
		r = uint64(f(0)) & Mask(t.W)
	case OpFPLt:
		r = b2u(f(0) < f(1))
	case OpFPLe:
		r = b2u(f(0) <= f(1))
	case OpFPEq:
		r = b2u(f(0) == f(1))
	case OpFPIsNaN:
		r = b2u(math.IsNaN(f(0)))
	default:
		panic("smt: eval of unknown op")
	}
	if memo != nil {
		memo[t.ID] = r
	}
	return r
}

func maskSort(w int) uint64 {
	if w == 0 {
		return 1
	}
	if w < 0 {
		return ^uint64(0)
	}
	return Mask(w)
}
