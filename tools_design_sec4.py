#!/usr/bin/env python3
"""Regenerates section 4 of DESIGN.md from checks.json + manifest_meta.json.

Usage: ./tools_design_sec4.py   (rewrites /verif/DESIGN.md in place)
"""
import json
import os

D = os.path.dirname(os.path.abspath(__file__))
c = json.load(open(os.path.join(D, 'checks.json')))
m = json.load(open(os.path.join(D, 'manifest_meta.json')))
props = {}
for l in open(os.path.join(D, 'properties.jsonl')):
    if l.strip():
        o = json.loads(l)
        props[o["id"]] = o
p = os.path.join(D, 'DESIGN.md')
s = open(p).read()
i = s.index('## 4. Per-property decision procedures')
j = s.index('## 5. Not-applicable clauses and fall-backs')
out = ['## 4. Per-property decision procedures (as built)\n', '''
This section is generated from `/verif/checks.json` (harnesses, parameter sets
per tier, stated bounds) and `manifest_meta.json` (`tools_design_sec4.py`); the
harness sources are `/verif/harness/<pkg>/zz_verif_cNN.go`. For every harness
the evidence file lists the mkdb functions whose SSA was executed
(`functions_encoded`), the intrinsics hit, the parameter sets explored with
their path counts, solver calls and time. "Quick" parameter sets are what
`vp check` runs; "thorough" ones are supersets or deeper variants. A parameter
set is registered only if it explores exhaustively (no unknown, no cap, no
budget overrun) on the unchanged tree within its time limit.

Shared machinery of the statement-level harnesses (`engine/zz_verif_lib.go`):
an in-memory model of a database (tables with rows in insertion order),
generators for INSERT/UPDATE/DELETE/CREATE TABLE statements whose values,
comparison constants and (by choice) operators are symbolic, ten concrete
prefix scenarios that put the storage next to every structural event (empty;
3, 8, 9, 12, 16, 30, 40+20 rows with and without tombstones; two tables), and
`verifCheckDB`, which compares `SELECT *` of every table and `sys_schema`
with the model (values bit for bit, row ids strictly increasing and unique
across tables). Prefixes are concrete, are flushed and reopened cold, and are
served from a per-worker file-system image.
''']
for pid in sorted(c):
    pc = c[pid]
    out.append(f"\n### {pid} {props[pid]['title']}\n")
    out.append("\n*What is decided and how.* " + m["checks"][pid]["text"] + "\n")
    out.append("\n*Harnesses.* " + ", ".join(
        f"`{h['name']}` ({h['pkg']}; quick {len(h['quick'].get('configs', [{}]))} / thorough {len(h['thorough'].get('configs', [{}]))} parameter sets)"
        for h in pc["harnesses"]) + ".\n")
    out.append("\n*Bounds.* " + pc["bounds"] + ".\n")
    out.append("\n*Outside the claim.* " + pc["outside"] + ".\n")
    if pc.get("assumptions"):
        out.append("\n*Assumptions.* " + "; ".join(pc["assumptions"]) + ".\n")
out.append("\n---------------------------------------------------------------------------\n\n")
s = s[:i] + "".join(out) + s[j:]
open(p, 'w').write(s)
