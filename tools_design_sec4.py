#!/usr/bin/env python3
"""Regenerates section 4 of DESIGN.md from checks.json + manifest_meta.json (see the inline copy in git history)."""
