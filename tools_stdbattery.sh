#!/bin/sh
# Engine-development check (not a property check): runs the library battery
# harness/dev/sql/zz_verif_stdbattery*.go item by item in the engine and natively and
# compares the observation logs. Prints one line per item that does not agree.
cd /verif
export GOFLAGS=-mod=mod GOPROXY=off GOSUMDB=off GOTOOLCHAIN=local
(cd gosym && go build -o /verif/bin/verifcheck ./cmd/verifcheck) || exit 2
n=$(cat harness/dev/sql/zz_verif_stdbattery.go harness/dev/sql/zz_verif_stdbattery2.go | grep -c '^[[:space:]]*// [0-9][0-9]*:')
bad=0
cd /tmp
for i in $(seq 0 $((n-1))); do
  out=$(VERIF_DEV=1 timeout 300 /verif/bin/verifcheck harness X_std pkg=sql item=$i workers=1 2>&1)
  if echo "$out" | grep -q "mismatches: \[\]" && ! echo "$out" | grep -q "^INCONCLUSIVE\|^ENGINE-ERROR\|^CANDIDATE"; then :; else
    bad=$((bad+1)); echo "item $i:"; echo "$out" | grep -v "^reach\|^asserts\|^static\|^harness=" | cut -c1-600 | head -5
  fi
done
echo "library battery: $n items, $bad not in agreement"
[ $bad = 0 ]
