#!/bin/sh
# Runs the thorough tier of the given properties (default: all) from the directory it is started in
# (a vp-run snapshot or /verif itself), with evidence written below that directory.
D=$(pwd)
export GOFLAGS=-mod=mod GOPROXY=off GOSUMDB=off GOTOOLCHAIN=local
(cd "$D/gosym" && go build -o "$D/bin/verifcheck" ./cmd/verifcheck) || exit 2
export VERIF_DIR="$D" VERIF_EVIDENCE_DIR="$D/evidence_thorough" VERIF_REPLAY_DIR="$D/replays_thorough"
props=${*:-C12 C15 C08 C19 C20 C06 C14 C16 C13 C10 C05 C18 C11 C03 C04 C02 C01 C17 C07 C09}
for p in $props; do
  s=$(date +%s)
  "$D/bin/verifcheck" $p thorough > "$D/thorough_$p.log" 2>&1; rc=$?
  echo "$p exit=$rc $(( $(date +%s)-s ))s viol=$(grep -c '^VIOLATION' "$D/thorough_$p.log") known=$(grep -c '^KNOWN' "$D/thorough_$p.log") inconc=$(grep -c '^INCONC\|^ENGINE\|^HARNESS-VAC\|^UNCONF\|^TRANSL' "$D/thorough_$p.log") nonexh=$(grep -c 'exhaustive=false' "$D/thorough_$p.log")"
done
