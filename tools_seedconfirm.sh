#!/bin/sh
# usage: tools_seedconfirm.sh <seed worktree> <seed-id>
# Confirms independently, in a fresh scratch worktree: the patch applies, the project builds,
# the pinned suite passes with it, the demo fails with it and passes without it.
# On success copies patch + demo into /verif/seeded/<seed-id>/.
src=$1; id=$2
export GOFLAGS=-mod=mod GOPROXY=off GOSUMDB=off GOTOOLCHAIN=local
wt=$(mktemp -d /tmp/seedconf.XXXXXX)
git -C /repo worktree add -q --detach "$wt" HEAD || exit 2
demos=$(cd "$src" && git status --porcelain | grep '^??' | awk '{print $2}' | grep '_test.go$')
echo "demo files: $demos"
res="ok"
( cd "$wt" && git apply "$src/seed_patch.diff" ) || res="patch-does-not-apply"
if [ "$res" = ok ]; then
  ( cd "$wt" && go build ./... ) || res="does-not-build"
  n=$(cd "$wt" && go test -vet=off -count=1 ./... 2>&1 | grep -c '^ok')
  [ "$n" = 5 ] || res="suite-fails-with-patch($n ok)"
fi
if [ "$res" = ok ]; then
  for d in $demos; do mkdir -p "$wt/$(dirname $d)"; cp "$src/$d" "$wt/$d"; done
  pkgs=$(for d in $demos; do echo "./$(dirname $d)"; done | sort -u)
  if (cd "$wt" && go test -tags verif -vet=off -count=1 -run 'Seed' $pkgs >/tmp/seedconf_with.log 2>&1); then res="demo-passes-with-patch"; fi
  ( cd "$wt" && git apply -R "$src/seed_patch.diff" )
  if ! (cd "$wt" && go test -tags verif -vet=off -count=1 -run 'Seed' $pkgs >/tmp/seedconf_without.log 2>&1); then res="demo-fails-without-patch"; fi
fi
echo "seed $id: $res"
if [ "$res" = ok ]; then
  mkdir -p /verif/seeded/$id
  cp "$src/seed_patch.diff" /verif/seeded/$id/patch.diff
  for d in $demos; do cp "$src/$d" /verif/seeded/$id/$(echo $d | tr '/' '_').txt; done
  cp "$src/seed_notes.md" /verif/seeded/$id/notes.md 2>/dev/null
  tail -5 /tmp/seedconf_with.log > /verif/seeded/$id/demo_with_patch.log
fi
git -C /repo worktree remove --force "$wt"
