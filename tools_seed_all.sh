#!/bin/sh
# Runs every seeded change against the quick check of the property it breaks.
cd /verif
for d in seeded/*/; do
  id=$(basename $d); prop=$(jq -r .breaks_property $d/meta.json)
  out=$(./tools_seedcheck.sh $id ${1:-quick} $prop 2>&1)
  rc=$(echo "$out" | grep -o "exit=[0-9]*" | head -1)
  first=$(echo "$out" | grep -m1 "^  harness=" | cut -c1-140)
  echo "$id $prop $rc $first"
done
