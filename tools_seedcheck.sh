#!/bin/sh
# usage: tools_seedcheck.sh <seed-id> <tier> <Cxx> [<Cxx> ...]
# Applies /verif/seeded/<seed-id>/patch.diff to a scratch worktree of /repo, runs the
# given checks against it (VERIF_REPO), prints their verdict lines, removes the worktree.
id=$1; tier=$2; shift 2
# VERIF_HOME: which copy of the machinery runs (default /verif; a worktree of an earlier commit measures "as delivered")
vh=${VERIF_HOME:-/verif}
wt=$(mktemp -d /tmp/seedrun.XXXXXX)
git -C /repo worktree add -q --detach "$wt" HEAD || exit 2
if ! git -C "$wt" apply /verif/seeded/$id/patch.diff; then echo "patch does not apply"; git -C /repo worktree remove --force "$wt"; exit 2; fi
for p in "$@"; do
  out=$(VERIF_REPO="$wt" VERIF_DIR=$vh VERIF_EVIDENCE_DIR="$wt/.verif_ev" VERIF_REPLAY_DIR="$wt/.verif_rp" $vh/bin/verifcheck $p $tier 2>&1); rc=$?
  echo "== seed=$id check=$p tier=$tier exit=$rc"
  # verdict lines first (a long run of INCONCLUSIVE lines must not push them out of view)
  echo "$out" | grep -E "^VIOLATION|^  harness=" | cut -c1-260 | head -8
  echo "$out" | grep -E "^(KNOWN-FINDING|UNCONFIRMED|INCONCLUSIVE|ENGINE-ERROR|HARNESS-VACUOUS|TRANSLATOR)" | cut -c1-260 | head -6
done
git -C /repo worktree remove --force "$wt"
