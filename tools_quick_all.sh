#!/bin/sh
# Runs the quick tier of the given properties (default: all) against /repo.
# Works from whichever copy of /verif it is started in (so `vp run -- sh tools_quick_all.sh`
# exercises a committed snapshot while /verif is being edited): evidence and logs go under that copy.
here=$(cd "$(dirname "$0")" && pwd)
cd "$here"
export GOFLAGS=-mod=mod GOPROXY=off GOSUMDB=off GOTOOLCHAIN=local
export VERIF_DIR="$here" VERIF_EVIDENCE_DIR="$here/evidence" VERIF_REPLAY_DIR="$here/replays"
(cd gosym && go build -o "$here/bin/verifcheck" ./cmd/verifcheck) || exit 2
props=${*:-C01 C02 C03 C04 C05 C06 C07 C08 C09 C10 C11 C12 C13 C14 C15 C16 C17 C18 C19 C20}
mkdir -p "$here/logs"
for p in $props; do
  s=$(date +%s)
  bin/verifcheck $p ${VERIF_TIER_ARG:-quick} > logs/q_$p.log 2>&1; rc=$?
  echo "$p exit=$rc $(( $(date +%s)-s ))s viol=$(grep -c '^VIOLATION' logs/q_$p.log) known=$(grep -c '^KNOWN' logs/q_$p.log) inconc=$(grep -c '^INCONC\|^ENGINE\|^HARNESS-VAC\|^UNCONF\|^TRANSL' logs/q_$p.log) nonexh=$(grep -c 'exhaustive=false' logs/q_$p.log)"
done
