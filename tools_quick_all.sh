#!/bin/sh
# Runs the quick tier of the given properties (default: all) against /repo, evidence into /verif/evidence.
cd /verif
export GOFLAGS=-mod=mod GOPROXY=off GOSUMDB=off GOTOOLCHAIN=local
(cd gosym && go build -o /verif/bin/verifcheck ./cmd/verifcheck) || exit 2
props=${*:-C01 C02 C03 C04 C05 C06 C07 C08 C09 C10 C11 C12 C13 C14 C15 C16 C17 C18 C19 C20}
mkdir -p /tmp/vq
for p in $props; do
  s=$(date +%s)
  bin/verifcheck $p quick > /tmp/vq/q_$p.log 2>&1; rc=$?
  echo "$p exit=$rc $(( $(date +%s)-s ))s viol=$(grep -c '^VIOLATION' /tmp/vq/q_$p.log) known=$(grep -c '^KNOWN' /tmp/vq/q_$p.log) inconc=$(grep -c '^INCONC\|^ENGINE\|^HARNESS-VAC\|^UNCONF\|^TRANSL' /tmp/vq/q_$p.log) nonexh=$(grep -c 'exhaustive=false' /tmp/vq/q_$p.log)"
done
