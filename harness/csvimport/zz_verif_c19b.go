//go:build verif

package main

import (
	"strings"

	"github.com/mk6i/mkdb/engine"
	"github.com/mk6i/mkdb/sql"
	"github.com/mk6i/mkdb/storage"
)

func init() {
	verifRegister("C19_real", verifH_C19_real)
}

// H19-real: the import end to end against a real database: the destination
// column types come from the catalog through makeConfig / colDataTypes (the
// mapping permutes the table's columns and leaves one out), the records go
// through the real encoding/csv reader, csvToSql, engine.EvaluateInsert and the
// storage, and the table is read back with SELECT *. Record classes: valid,
// NULL marker in the text column (classes=6: also a quoted field holding the
// separator and a doubled quote, and a quoted NULL marker), an INT that parses but is outside 32 bits
// (refused by the storage layer, not by the importer), an unparsable number.
// Every accepted record is one row with the converted values, in input order;
// the others are reported and leave no trace.
func verifH_C19_real() {
	n := verifParam("records", 2)
	verifFSReset()
	verifAssert(storage.InitStorage() == nil, "init-storage")
	verifAssert(storage.CreateDB("db") == nil, "create-db")
	rs, err := storage.VerifOpenRelation("db", 0)
	verifAssert(err == nil, "open")
	if err != nil {
		return
	}
	stmt, perr := verifParse("CREATE TABLE t (num INT, txt VARCHAR(255), big BIGINT, ok BOOLEAN)")
	verifAssert(perr == nil, "create-parses")
	if perr != nil {
		return
	}
	verifAssert(engine.EvaluateCreateTable(stmt.(sql.CreateTable), rs) == nil, "create-table")
	*cfgDb, *cfgTable, *cfgSep = "db", "t", ","
	*cfgDestCols, *cfgSrcCols = "big,txt,num", "2,0,1"
	cfg, err := makeConfig(rs)
	verifAssert(err == nil, "config-ok")
	if err != nil {
		return
	}
	verifAssert(len(cfg.colTypes) == 3 && cfg.colTypes[0] == storage.TypeBigInt && cfg.colTypes[1] == storage.TypeVarchar && cfg.colTypes[2] == storage.TypeInt, "column-types-from-the-catalog")
	type want struct {
		num, big int64
		txt      interface{}
	}
	var wants []want
	var input []byte
	for r := 0; r < n; r++ {
		class := verifChoice("class", verifParam("classes", 4))
		txt := verifBytes("txt", 2)
		for _, c := range txt {
			verifAssume(verifAnd(verifAnd(c != ',', c != '"'), verifAnd(c > 0x20, c < 0x7f)))
		}
		verifAssume(!verifAnd(txt[0] == '\\', txt[1] == 'N'))
		dg := verifBytes("num", 2)
		bg := verifBytes("big", 2)
		for _, c := range append(append([]byte{}, dg...), bg...) {
			verifAssume(verifAnd(c >= '0', c <= '9'))
		}
		num := int64(dg[0]-'0')*10 + int64(dg[1]-'0')
		big := int64(bg[0]-'0')*10 + int64(bg[1]-'0')
		// CSV columns: 0 txt, 1 num, 2 big
		var line []byte
		switch class {
		case 0:
			line = []byte(string(txt) + "," + string(dg) + "," + string(bg))
			wants = append(wants, want{num, big, string(txt)})
		case 1:
			line = []byte("\\N," + string(dg) + "," + string(bg))
			wants = append(wants, want{num, big, nil})
		case 2:
			// 21474836dd: inside 32 bits iff the two digits are at most 47
			line = []byte(string(txt) + ",21474836" + string(dg) + "," + string(bg))
			if v := int64(2147483600) + num; v <= 2147483647 {
				wants = append(wants, want{v, big, string(txt)})
			}
		case 4:
			// a quoted text field that holds the separator and a doubled quote: "t,""x"
			line = []byte("\"" + string(txt[:1]) + ",\"\"" + string(txt[1:]) + "\"," + string(dg) + "," + string(bg))
			wants = append(wants, want{num, big, string(txt[:1]) + ",\"" + string(txt[1:])})
		case 5:
			// a quoted NULL marker is still the NULL marker for the importer (the csv reader strips the quotes)
			line = []byte("\"\\N\"," + string(dg) + "," + string(bg))
			wants = append(wants, want{num, big, nil})
		default:
			line = []byte(string(txt) + ",x" + string(dg) + "," + string(bg))
		}
		input = append(input, line...)
		input = append(input, '\n')
	}
	chOk, chErr := doBatchInsert(rs, cfg, strings.NewReader(string(input)))
	oks, errs := 0, 0
	for chOk != nil || chErr != nil {
		select {
		case _, ok := <-chOk:
			if ok {
				oks++
			} else {
				chOk = nil
			}
		case _, ok := <-chErr:
			if ok {
				errs++
			} else {
				chErr = nil
			}
		}
	}
	verifAssert(oks+errs == n, "one-event-per-record")
	verifAssert(oks == len(wants), "accepted-count")
	sel, perr := verifParse("SELECT * FROM t")
	verifAssert(perr == nil, "select-parses")
	if perr != nil {
		return
	}
	rows, _, err := engine.EvaluateSelect(sel.(sql.Select), rs)
	verifAssert(err == nil, "select-ok")
	if err != nil {
		return
	}
	verifAssert(len(rows) == len(wants), "stored-count")
	for i, w := range wants {
		if i >= len(rows) {
			break
		}
		v := rows[i].Vals
		verifAssert(len(v) == 4, "row-width")
		if len(v) != 4 {
			continue
		}
		verifAssert(verifSameVal(w.num, v[0]) && verifSameVal(w.txt, v[1]) && verifSameVal(w.big, v[2]) && v[3] == nil, "stored-values-in-input-order")
	}
	// the same after a restart
	storage.VerifAbandon(rs)
	verifAssert(storage.InitStorage() == nil, "recovery-ok")
	rs2, err := storage.VerifOpenRelation("db", 0)
	verifAssert(err == nil, "reopen")
	if err != nil {
		return
	}
	rows2, _, err := engine.EvaluateSelect(sel.(sql.Select), rs2)
	verifAssert(err == nil && len(rows2) == len(wants), "restart/stored-count")
	verifReach("end")
}

func verifParse(q string) (interface{}, error) {
	ts := sql.NewTokenScanner(strings.NewReader(q))
	tl := sql.TokenList{}
	for ts.Next() {
		tl.Add(ts.Cur())
	}
	p := sql.Parser{TokenList: tl}
	return p.Parse()
}
