//go:build verif

package main

import (
	"strings"

	"github.com/mk6i/mkdb/storage"
)

func init() {
	verifRegister("C19_stream", verifH_C19_stream)
}

// H19-stream: a stream of records of chosen classes through doBatchInsert
// (real encoding/csv reader, goroutine, both channels): every record is either
// reported on the error channel or inserted exactly once, in input order, with
// the converted values; a bad record changes nothing about the others.
//
// record classes: 0 valid, 1 valid with a NULL marker, 2 too short, 3 bare quote
// inside a field, 4 unparsable number, 5 the relation manager refuses the insert
func verifH_C19_stream() {
	n := verifParam("records", 2)
	sepIdx := verifParam("sep", 0)
	sep := []rune{',', ';', '\t'}[sepIdx]
	cfg := importCfg{table: "t", separator: sep,
		dstCols:  []string{"num", "txt"},
		srcCols:  []int{1, 0},
		colTypes: []storage.DataType{storage.TypeInt, storage.TypeVarchar}}
	// sparse=1: the mapping skips a CSV column (source columns 2 and 0 of three),
	// and a record may have two fields only (as many as are mapped, fewer than needed)
	sparse := verifParam("sparse", 0) == 1
	nclass := 6
	if sparse {
		cfg.srcCols = []int{2, 0}
		nclass = 7
	}
	mid := func(line []byte) []byte {
		if sparse {
			return append(append(line, byte(sep)), 'f')
		}
		return line
	}
	rm := &verifImportRM{}
	var input []byte
	type want struct {
		ok   bool
		vals []interface{}
	}
	var wants []want
	accepted, insertCalls := 0, 0
	for r := 0; r < n; r++ {
		class := verifChoice("class", nclass)
		txt := verifBytes("txt", 2)
		for _, c := range txt {
			verifAssume(verifAnd(verifAnd(c != byte(sep), c != '"'), verifAnd(c != '\n', c != '\r')))
			verifAssume(verifAnd(c > 0x20, c < 0x7f))
		}
		// the two text bytes are not, by accident, the NULL marker (that is class 1)
		verifAssume(!verifAnd(txt[0] == '\\', txt[1] == 'N'))
		dg := verifBytes("num", 2)
		for _, c := range dg {
			verifAssume(verifAnd(c >= '0', c <= '9'))
		}
		num := int64(dg[0]-'0')*10 + int64(dg[1]-'0')
		var line []byte
		w := want{}
		switch class {
		case 0:
			line = append(append(mid(append([]byte{}, txt...)), byte(sep)), dg...)
			w = want{true, []interface{}{num, string(txt)}}
		case 1:
			line = append(append(mid([]byte("\\N")), byte(sep)), dg...)
			w = want{true, []interface{}{num, nil}}
		case 2:
			line = append([]byte{}, txt...)
		case 3:
			line = append(append(mid([]byte{txt[0], '"', txt[1]}), byte(sep)), dg...)
		case 4:
			line = append(append(mid(append([]byte{}, txt...)), byte(sep)), 'x', dg[0])
		case 6:
			// sparse mapping only: two fields, the number column is missing
			line = mid(append([]byte{}, txt...))
		default:
			line = append(append(mid(append([]byte{}, txt...)), byte(sep)), dg...)
			// the manager refuses this one record (at most one such record per stream)
			if rm.failOn != 0 {
				verifAssume(false)
			}
			rm.failOn = insertCalls + 1
		}
		if class == 5 {
			w = want{false, nil}
		}
		if class == 0 || class == 1 || class == 5 {
			insertCalls++
		}
		if w.ok {
			accepted++
		}
		wants = append(wants, w)
		input = append(input, line...)
		input = append(input, '\n')
	}
	_ = accepted
	chOk, chErr := doBatchInsert(rm, cfg, strings.NewReader(string(input)))
	oks, errs := 0, 0
	for chOk != nil || chErr != nil {
		select {
		case _, ok := <-chOk:
			if ok {
				oks++
			} else {
				chOk = nil
			}
		case _, ok := <-chErr:
			if ok {
				errs++
			} else {
				chErr = nil
			}
		}
	}
	verifAssert(oks+errs == n, "one-event-per-record")
	wantOK := 0
	for _, w := range wants {
		if w.ok {
			wantOK++
		}
	}
	verifAssert(oks == wantOK, "accepted-count")
	verifAssert(len(rm.inserted) == wantOK, "stored-count")
	k := 0
	for _, w := range wants {
		if !w.ok {
			continue
		}
		if k < len(rm.inserted) {
			verifAssert(len(rm.inserted[k]) == 2, "stored-width")
			verifAssert(verifSameVal(w.vals[0], rm.inserted[k][0]) && verifSameVal(w.vals[1], rm.inserted[k][1]), "stored-values-in-input-order")
		}
		k++
	}
	verifReach("end")
}

