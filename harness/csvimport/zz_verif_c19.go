//go:build verif

package main

import (
	"strings"

	"github.com/mk6i/mkdb/sql"
	"github.com/mk6i/mkdb/storage"
)

func init() {
	verifRegister("C19_conv", verifH_C19_conv)
	verifRegister("C19_stream", verifH_C19_stream)
}

// stub relation manager that records the rows it is asked to insert
type verifImportRM struct {
	inserted [][]interface{}
	cols     [][]string
	failOn   int // 1-based index of the Insert call that fails (0: never)
	calls    int
}

func (m *verifImportRM) StartTxn() {}
func (m *verifImportRM) EndTxn()   {}
func (m *verifImportRM) CreateTable(r *storage.Relation, tableName string) error {
	return nil
}
func (m *verifImportRM) MarkDeleted(tableName string, rowID uint32) (storage.WALBatch, error) {
	return nil, nil
}
func (m *verifImportRM) Fetch(tableName string) ([]*storage.Row, []*storage.Field, error) {
	return nil, nil, nil
}
func (m *verifImportRM) Update(tableName string, rowID uint32, cols []string, updateSrc []interface{}) (storage.WALBatch, error) {
	return nil, nil
}
func (m *verifImportRM) Insert(tableName string, cols []string, vals []interface{}) (storage.WALBatch, error) {
	m.calls++
	if m.calls == m.failOn {
		return nil, storage.ErrTypeMismatch
	}
	m.inserted = append(m.inserted, append([]interface{}(nil), vals...))
	m.cols = append(m.cols, cols)
	return nil, nil
}
func (m *verifImportRM) FlushWALBatch(batch storage.WALBatch) error { return nil }

var _ = sql.EQ

// verifRefInt: reference meaning of a decimal field (optional sign, digits only).
// ok=false when the text is not an integer.
func verifRefInt(s string) (v int64, ok bool) {
	if len(s) == 0 {
		return 0, false
	}
	i := 0
	neg := false
	if s[0] == '-' || s[0] == '+' {
		neg = s[0] == '-'
		i = 1
		if len(s) == 1 {
			return 0, false
		}
	}
	for ; i < len(s); i++ {
		d := s[i]
		if d < '0' || d > '9' {
			return 0, false
		}
		v = v*10 + int64(d-'0')
	}
	if neg {
		v = -v
	}
	return v, true
}

func verifRefBool(s string) (v, ok bool) {
	switch strings.ToLower(s) {
	case "1", "true", "t":
		return true, true
	case "0", "false", "f":
		return false, true
	}
	return false, false
}

var verifTypes = []storage.DataType{storage.TypeInt, storage.TypeVarchar, storage.TypeBoolean, storage.TypeBigInt}

// verifField returns a CSV field of class k: 0 symbolic bytes of length n
// (free of separators, quotes and line breaks), 1 the NULL marker, 2 a fixed
// boolean spelling, 3 a number of n symbolic digits.
func verifField(tag string, k, n int) string {
	switch k {
	case 1:
		return "\\N"
	case 2:
		return []string{"true", "F", "0", "t"}[verifChoice(tag+"spelling", 4)]
	case 3:
		b := verifBytes(tag, n)
		for _, c := range b {
			verifAssume(verifAnd(c >= '0', c <= '9'))
		}
		return string(b)
	default:
		b := verifBytes(tag, n)
		for _, c := range b {
			verifAssume(verifAnd(verifAnd(c != ',', c != '"'), verifAnd(c != '\n', c != '\r')))
			verifAssume(verifAnd(c >= 0x20, c < 0x7f))
		}
		return string(b)
	}
}

// verifExpect is what a field must convert to for a column type: (value, accepted).
func verifExpect(t storage.DataType, field string) (interface{}, bool) {
	if field == "\\N" {
		return nil, true
	}
	switch t {
	case storage.TypeInt, storage.TypeBigInt:
		v, ok := verifRefInt(field)
		if !ok {
			return nil, false
		}
		return v, true
	case storage.TypeBoolean:
		v, ok := verifRefBool(field)
		if !ok {
			return nil, false
		}
		return v, true
	default:
		return field, true
	}
}

func verifSameVal(a, b interface{}) bool {
	switch x := a.(type) {
	case nil:
		return b == nil
	case int64:
		y, ok := b.(int64)
		return ok && x == y
	case bool:
		y, ok := b.(bool)
		return ok && x == y
	case string:
		y, ok := b.(string)
		return ok && x == y
	}
	return false
}

// H19-conv: csvToSql over every destination type and mapping: it returns an
// error, or exactly the typed value each mapped field denotes.
func verifH_C19_conv() {
	ncols := verifParam("cols", 2)
	flen := verifParam("flen", 2)
	cfg := importCfg{table: "t", separator: ','}
	nsrc := ncols + 1
	row := make([]string, nsrc)
	for i := range row {
		row[i] = verifField("f", verifChoice("class", 4), flen)
	}
	for i := 0; i < ncols; i++ {
		cfg.dstCols = append(cfg.dstCols, string(rune('a'+i)))
		cfg.srcCols = append(cfg.srcCols, verifChoice("src", nsrc))
		cfg.colTypes = append(cfg.colTypes, verifTypes[verifChoice("type", 4)])
	}
	got, err := csvToSql(cfg, row)
	allOK := true
	for i := 0; i < ncols; i++ {
		want, ok := verifExpect(cfg.colTypes[i], row[cfg.srcCols[i]])
		if !ok {
			allOK = false
			break
		}
		if err == nil {
			verifAssert(len(got) == ncols, "row-width")
			verifAssert(verifSameVal(want, got[i]), "converted-value")
		}
	}
	verifAssert((err == nil) == allOK, "accepted-iff-every-field-converts")
	verifReach("end")
}

// H19-stream: a stream of records of chosen classes through doBatchInsert
// (real encoding/csv reader, goroutine, both channels): every record is either
// reported on the error channel or inserted exactly once, in input order, with
// the converted values; a bad record changes nothing about the others.
//
// record classes: 0 valid, 1 valid with a NULL marker, 2 too short, 3 bare quote
// inside a field, 4 unparsable number, 5 the relation manager refuses the insert
func verifH_C19_stream() {
	n := verifParam("records", 2)
	sepIdx := verifParam("sep", 0)
	sep := []rune{',', ';', '\t'}[sepIdx]
	cfg := importCfg{table: "t", separator: sep,
		dstCols:  []string{"num", "txt"},
		srcCols:  []int{1, 0},
		colTypes: []storage.DataType{storage.TypeInt, storage.TypeVarchar}}
	// sparse=1: the mapping skips a CSV column (source columns 2 and 0 of three),
	// and a record may have two fields only (as many as are mapped, fewer than needed)
	sparse := verifParam("sparse", 0) == 1
	nclass := 6
	if sparse {
		cfg.srcCols = []int{2, 0}
		nclass = 7
	}
	mid := func(line []byte) []byte {
		if sparse {
			return append(append(line, byte(sep)), 'f')
		}
		return line
	}
	rm := &verifImportRM{}
	var input []byte
	type want struct {
		ok   bool
		vals []interface{}
	}
	var wants []want
	accepted, insertCalls := 0, 0
	for r := 0; r < n; r++ {
		class := verifChoice("class", nclass)
		txt := verifBytes("txt", 2)
		for _, c := range txt {
			verifAssume(verifAnd(verifAnd(c != byte(sep), c != '"'), verifAnd(c != '\n', c != '\r')))
			verifAssume(verifAnd(c > 0x20, c < 0x7f))
		}
		// the two text bytes are not, by accident, the NULL marker (that is class 1)
		verifAssume(!verifAnd(txt[0] == '\\', txt[1] == 'N'))
		dg := verifBytes("num", 2)
		for _, c := range dg {
			verifAssume(verifAnd(c >= '0', c <= '9'))
		}
		num := int64(dg[0]-'0')*10 + int64(dg[1]-'0')
		var line []byte
		w := want{}
		switch class {
		case 0:
			line = append(append(mid(append([]byte{}, txt...)), byte(sep)), dg...)
			w = want{true, []interface{}{num, string(txt)}}
		case 1:
			line = append(append(mid([]byte("\\N")), byte(sep)), dg...)
			w = want{true, []interface{}{num, nil}}
		case 2:
			line = append([]byte{}, txt...)
		case 3:
			line = append(append(mid([]byte{txt[0], '"', txt[1]}), byte(sep)), dg...)
		case 4:
			line = append(append(mid(append([]byte{}, txt...)), byte(sep)), 'x', dg[0])
		case 6:
			// sparse mapping only: two fields, the number column is missing
			line = mid(append([]byte{}, txt...))
		default:
			line = append(append(mid(append([]byte{}, txt...)), byte(sep)), dg...)
			// the manager refuses this one record (at most one such record per stream)
			if rm.failOn != 0 {
				verifAssume(false)
			}
			rm.failOn = insertCalls + 1
		}
		if class == 5 {
			w = want{false, nil}
		}
		if class == 0 || class == 1 || class == 5 {
			insertCalls++
		}
		if w.ok {
			accepted++
		}
		wants = append(wants, w)
		input = append(input, line...)
		input = append(input, '\n')
	}
	_ = accepted
	chOk, chErr := doBatchInsert(rm, cfg, strings.NewReader(string(input)))
	oks, errs := 0, 0
	for chOk != nil || chErr != nil {
		select {
		case _, ok := <-chOk:
			if ok {
				oks++
			} else {
				chOk = nil
			}
		case _, ok := <-chErr:
			if ok {
				errs++
			} else {
				chErr = nil
			}
		}
	}
	verifAssert(oks+errs == n, "one-event-per-record")
	wantOK := 0
	for _, w := range wants {
		if w.ok {
			wantOK++
		}
	}
	verifAssert(oks == wantOK, "accepted-count")
	verifAssert(len(rm.inserted) == wantOK, "stored-count")
	k := 0
	for _, w := range wants {
		if !w.ok {
			continue
		}
		if k < len(rm.inserted) {
			verifAssert(len(rm.inserted[k]) == 2, "stored-width")
			verifAssert(verifSameVal(w.vals[0], rm.inserted[k][0]) && verifSameVal(w.vals[1], rm.inserted[k][1]), "stored-values-in-input-order")
		}
		k++
	}
	verifReach("end")
}

