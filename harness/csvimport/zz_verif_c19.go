//go:build verif

package main

func init() {
	verifRegister("C19_conv", verifH_C19_conv)
}

// H19-conv: csvToSql over every destination type and mapping: it returns an
// error, or exactly the typed value each mapped field denotes.
func verifH_C19_conv() {
	ncols := verifParam("cols", 2)
	flen := verifParam("flen", 2)
	cfg := importCfg{table: "t", separator: ','}
	nsrc := ncols + 1
	row := make([]string, nsrc)
	for i := range row {
		row[i] = verifField("f", verifChoice("class", verifParam("classes", 4)), flen)
	}
	for i := 0; i < ncols; i++ {
		cfg.dstCols = append(cfg.dstCols, string(rune('a'+i)))
		cfg.srcCols = append(cfg.srcCols, verifChoice("src", nsrc))
		cfg.colTypes = append(cfg.colTypes, verifTypes[verifChoice("type", 4)])
	}
	got, err := csvToSql(cfg, row)
	allOK := true
	for i := 0; i < ncols; i++ {
		want, ok := verifExpect(cfg.colTypes[i], row[cfg.srcCols[i]])
		if !ok {
			allOK = false
			break
		}
		if err == nil {
			verifAssert(len(got) == ncols, "row-width")
			verifAssert(verifSameVal(want, got[i]), "converted-value")
		}
	}
	verifAssert((err == nil) == allOK, "accepted-iff-every-field-converts")
	verifReach("end")
}

