//go:build verif

package main

// Shared helpers of the csvimport harnesses (kept apart from the harness files so
// that a harness file that stops compiling against a changed tree can be left
// out without taking the others with it).

import (
	"strings"

	"github.com/mk6i/mkdb/sql"
	"github.com/mk6i/mkdb/storage"
)

// stub relation manager that records the rows it is asked to insert
type verifImportRM struct {
	inserted [][]interface{}
	cols     [][]string
	failOn   int // 1-based index of the Insert call that fails (0: never)
	calls    int
}

func (m *verifImportRM) StartTxn() {}
func (m *verifImportRM) EndTxn()   {}
func (m *verifImportRM) CreateTable(r *storage.Relation, tableName string) error {
	return nil
}
func (m *verifImportRM) MarkDeleted(tableName string, rowID uint32) (storage.WALBatch, error) {
	return nil, nil
}
func (m *verifImportRM) Fetch(tableName string) ([]*storage.Row, []*storage.Field, error) {
	return nil, nil, nil
}
func (m *verifImportRM) Update(tableName string, rowID uint32, cols []string, updateSrc []interface{}) (storage.WALBatch, error) {
	return nil, nil
}
func (m *verifImportRM) Insert(tableName string, cols []string, vals []interface{}) (storage.WALBatch, error) {
	m.calls++
	if m.calls == m.failOn {
		return nil, storage.ErrTypeMismatch
	}
	m.inserted = append(m.inserted, append([]interface{}(nil), vals...))
	m.cols = append(m.cols, cols)
	return nil, nil
}
func (m *verifImportRM) FlushWALBatch(batch storage.WALBatch) error { return nil }

var _ = sql.EQ

// verifRefInt: reference meaning of a decimal field (optional sign, digits only).
// ok=false when the text is not an integer.
func verifRefInt(s string) (v int64, ok bool) {
	if len(s) == 0 {
		return 0, false
	}
	i := 0
	neg := false
	if s[0] == '-' || s[0] == '+' {
		neg = s[0] == '-'
		i = 1
		if len(s) == 1 {
			return 0, false
		}
	}
	// accumulated as a negative number so that the most negative value is representable;
	// a number outside 64 bits does not convert
	const min = -9223372036854775808
	for ; i < len(s); i++ {
		d := s[i]
		if d < '0' || d > '9' {
			return 0, false
		}
		dv := int64(d - '0')
		if v < min/10 || (v == min/10 && dv > 8) {
			return 0, false
		}
		v = v*10 - dv
	}
	if !neg {
		if v == min {
			return 0, false
		}
		v = -v
	}
	return v, true
}

func verifRefBool(s string) (v, ok bool) {
	switch strings.ToLower(s) {
	case "1", "true", "t":
		return true, true
	case "0", "false", "f":
		return false, true
	}
	return false, false
}

var verifTypes = []storage.DataType{storage.TypeInt, storage.TypeVarchar, storage.TypeBoolean, storage.TypeBigInt}

// verifField returns a CSV field of class k: 0 symbolic bytes of length n
// (free of separators, quotes and line breaks), 1 the NULL marker, 2 a fixed
// boolean spelling, 3 a number of n symbolic digits, 4 a number around +-2^63.
func verifField(tag string, k, n int) string {
	switch k {
	case 1:
		return "\\N"
	case 2:
		return []string{"true", "F", "0", "t"}[verifChoice(tag+"spelling", 4)]
	case 3:
		b := verifBytes(tag, n)
		for _, c := range b {
			verifAssume(verifAnd(c >= '0', c <= '9'))
		}
		return string(b)
	case 4:
		// around the ends of 64 bits: 922337203685477580d and -922337203685477580d with a symbolic last digit
		d := verifU8(tag + "last")
		verifAssume(verifAnd(d >= '0', d <= '9'))
		if verifChoice(tag+"sign", 2) == 1 {
			return "-922337203685477580" + string([]byte{d})
		}
		return "922337203685477580" + string([]byte{d})
	default:
		b := verifBytes(tag, n)
		for _, c := range b {
			verifAssume(verifAnd(verifAnd(c != ',', c != '"'), verifAnd(c != '\n', c != '\r')))
			verifAssume(verifAnd(c >= 0x20, c < 0x7f))
		}
		return string(b)
	}
}

// verifExpect is what a field must convert to for a column type: (value, accepted).
func verifExpect(t storage.DataType, field string) (interface{}, bool) {
	if field == "\\N" {
		return nil, true
	}
	switch t {
	case storage.TypeInt, storage.TypeBigInt:
		v, ok := verifRefInt(field)
		if !ok {
			return nil, false
		}
		return v, true
	case storage.TypeBoolean:
		v, ok := verifRefBool(field)
		if !ok {
			return nil, false
		}
		return v, true
	default:
		return field, true
	}
}

func verifSameVal(a, b interface{}) bool {
	switch x := a.(type) {
	case nil:
		return b == nil
	case int64:
		y, ok := b.(int64)
		return ok && x == y
	case bool:
		y, ok := b.(bool)
		return ok && x == y
	case string:
		y, ok := b.(string)
		return ok && x == y
	}
	return false
}

