//go:build verif

package main

import (
	"io"
	"strings"
)

func init() {
	verifRegister("C20_split", verifH_C20_split)
	verifRegister("C20_lines", verifH_C20_lines)
}

// verifTTY feeds the terminal from a byte slice in chunks of a given size and swallows output.
type verifTTY struct {
	in    []byte
	chunk int
}

func (t *verifTTY) Read(p []byte) (int, error) {
	if len(t.in) == 0 {
		return 0, io.EOF
	}
	n := t.chunk
	if n <= 0 || n > len(t.in) {
		n = len(t.in)
	}
	if n > len(p) {
		n = len(p)
	}
	copy(p, t.in[:n])
	t.in = t.in[n:]
	return n, nil
}

func (t *verifTTY) Write(p []byte) (int, error) { return len(p), nil }

// verifRefSplit is the quote-aware reference: statement ends are the
// semicolons outside '...' and "..." literals.
func verifRefSplit(line []rune) (pieces []string, submit bool) {
	var ends []int
	var quote rune
	for i, r := range line {
		switch {
		case quote != 0:
			if r == quote {
				quote = 0
			}
		case r == '\'' || r == '"':
			quote = r
		case r == ';':
			ends = append(ends, i)
		}
	}
	last := -1
	for i, r := range line {
		if r != ' ' {
			last = i
		}
	}
	if last == -1 {
		return nil, true
	}
	if len(ends) == 0 || ends[len(ends)-1] != last {
		return nil, false
	}
	begin := 0
	for _, e := range ends {
		pieces = append(pieces, strings.TrimSpace(string(line[begin:e+1])))
		begin = e + 1
	}
	return pieces, true
}

// printable ASCII except space, quotes and semicolon / printable ASCII
var verifPlainBytes, verifLitBytes = func() (p, l []int) {
	for c := 0x20; c < 0x7f; c++ {
		l = append(l, c)
		if c != ' ' && c != ';' && c != '\'' && c != '"' {
			p = append(p, c)
		}
	}
	return
}()

var verifRuneClasses = []int{'a', ' ', ';', '\'', '"'}

// H20-split: Enter over an arbitrary line buffer of n runes from the classes
// letter / space / semicolon / single quote / double quote.
func verifH_C20_split() {
	n := verifParam("len", 4)
	term := NewTerminal(&verifTTY{}, "")
	line := make([]rune, n)
	for i := range line {
		line[i] = rune(verifIntFrom("r", verifRuneClasses))
	}
	term.line = append([]rune(nil), line...)
	term.pos = n
	got, ok := term.handleKey(keyEnter)
	want, submit := verifRefSplit(line)
	verifAssert(ok == submit, "submits-iff-last-statement-is-terminated")
	if !ok || !submit {
		verifReach("continued")
		return
	}
	verifAssert(len(got) == len(want), "statement-count")
	for i := range want {
		if i < len(got) {
			verifAssert(got[i] == want[i], "statement-text")
		}
	}
	verifAssert(len(term.line) == 0, "buffer-cleared")
	verifReach("end")
}

// H20-lines: k statements, each made of segments that are plain text or a
// quoted literal (which may contain semicolons, spaces and the other quote),
// typed through ReadLine with Enter keys at chosen segment boundaries, several
// statements per line or one statement over several lines, delivered in chunks.
// The concatenation of what successive ReadLine calls return is exactly the k
// statements, once each, in order, literals intact.
func verifH_C20_lines() {
	k := verifParam("stmts", 2)
	segs := verifParam("segs", 2)
	chunk := verifParam("chunk", 0)
	paste := verifParam("paste", 0) == 1
	var input []byte
	var want []string
	if paste {
		input = append(input, pasteStart...)
	}
	if pad := verifParam("pad", 0); pad > 0 {
		// a concrete first statement of pad bytes (Enter included), so that the
		// statements that follow straddle the 256-byte read buffer of the terminal
		var stmt []byte
		for i := 0; i < pad-2; i++ {
			stmt = append(stmt, 'x')
		}
		stmt = append(stmt, ';')
		input = append(append(input, stmt...), '\r')
		want = append(want, string(stmt))
	}
	segKinds := verifParam("segkinds", 3)
	for s := 0; s < k; s++ {
		var stmt []byte
		for g := 0; g < segs; g++ {
			if g > 0 {
				switch verifChoice("sep", 3) {
				case 0:
					input = append(input, ' ')
					stmt = append(stmt, ' ')
				case 1:
					// Enter between two segments: the console joins the lines with a space
					input = append(input, '\r')
					stmt = append(stmt, ' ')
				}
			}
			switch verifChoice("seg", segKinds) {
			case 3: // quoted literal with a 2-byte and a 3-byte UTF-8 character
				lit := []byte{'\'', 0xc3, 0xa9, 0xe2, 0x82, 0xac, '\''}
				input = append(input, lit...)
				stmt = append(stmt, lit...)
			case 0: // plain text: two printable bytes, no quote, no semicolon, no space
				b := []byte{byte(verifIntFrom("plain", verifPlainBytes)), byte(verifIntFrom("plain", verifPlainBytes))}
				input = append(input, b...)
				stmt = append(stmt, b...)
			default: // quoted literal with two free printable bytes (not the enclosing quote)
				q := byte('\'')
				if verifChoice("quote", 2) == 1 {
					q = '"'
				}
				b := []byte{byte(verifIntFrom("lit", verifLitBytes)), byte(verifIntFrom("lit", verifLitBytes))}
				for _, c := range b {
					verifAssume(c != q)
				}
				lit := append(append([]byte{q}, b...), q)
				input = append(input, lit...)
				stmt = append(stmt, lit...)
			}
		}
		input = append(input, ';')
		stmt = append(stmt, ';')
		want = append(want, string(stmt))
		// after a statement: Enter, a space before the next statement, or nothing
		if s == k-1 {
			input = append(input, '\r')
		} else {
			switch verifChoice("after", 3) {
			case 0:
				input = append(input, '\r')
			case 1:
				input = append(input, ' ')
			}
		}
	}
	if paste {
		input = append(input, pasteEnd...)
		input = append(input, '\r')
	}
	term := NewTerminal(&verifTTY{in: input, chunk: chunk}, "")
	var got []string
	for i := 0; i < 2*k+4; i++ {
		lines, err := term.ReadLine()
		got = append(got, lines...)
		if err != nil && err != ErrPasteIndicator {
			break
		}
	}
	verifAssert(len(got) == len(want), "statement-count")
	for i := range want {
		if i < len(got) {
			verifAssert(got[i] == want[i], "statement-text")
		}
	}
	verifReach("end")
}
