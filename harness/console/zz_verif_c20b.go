//go:build verif

package main

import (
	"fmt"
	"io"
	"os"
	"strings"
	"syscall"
	"unsafe"

	"github.com/mk6i/mkdb/engine"
	"github.com/mk6i/mkdb/storage"
)

func init() {
	verifRegister("C20_console", verifH_C20_console)
}

// verifConsoleIO runs fn with the process's terminal delivering input on stdin
// and then nothing more. Under the engine it is intercepted (the model's stdin
// file gets the bytes). Natively a pseudo terminal in raw mode is put on file
// descriptor 0 for the duration of fn, because runTerminal insists on a tty.
func verifConsoleIO(input []byte, fn func()) {
	master, err := os.OpenFile("/dev/ptmx", os.O_RDWR|syscall.O_NOCTTY, 0)
	if err != nil {
		panic("verifConsoleIO: no pseudo terminal: " + err.Error())
	}
	defer master.Close()
	var unlock int32
	if _, _, e := syscall.Syscall(syscall.SYS_IOCTL, master.Fd(), syscall.TIOCSPTLCK, uintptr(unsafe.Pointer(&unlock))); e != 0 {
		panic(fmt.Sprintf("verifConsoleIO: TIOCSPTLCK: %v", e))
	}
	var n uint32
	if _, _, e := syscall.Syscall(syscall.SYS_IOCTL, master.Fd(), syscall.TIOCGPTN, uintptr(unsafe.Pointer(&n))); e != 0 {
		panic(fmt.Sprintf("verifConsoleIO: TIOCGPTN: %v", e))
	}
	slave, err := os.OpenFile(fmt.Sprintf("/dev/pts/%d", n), os.O_RDWR|syscall.O_NOCTTY, 0)
	if err != nil {
		panic("verifConsoleIO: " + err.Error())
	}
	defer slave.Close()
	// raw from the start, so that nothing is cooked or echoed by the line discipline
	var tio syscall.Termios
	if _, _, e := syscall.Syscall(syscall.SYS_IOCTL, slave.Fd(), syscall.TCGETS, uintptr(unsafe.Pointer(&tio))); e != 0 {
		panic(fmt.Sprintf("verifConsoleIO: TCGETS: %v", e))
	}
	tio.Iflag &^= syscall.IGNBRK | syscall.BRKINT | syscall.PARMRK | syscall.ISTRIP | syscall.INLCR | syscall.IGNCR | syscall.ICRNL | syscall.IXON
	tio.Oflag &^= syscall.OPOST
	tio.Lflag &^= syscall.ECHO | syscall.ECHONL | syscall.ICANON | syscall.ISIG | syscall.IEXTEN
	tio.Cflag &^= syscall.CSIZE | syscall.PARENB
	tio.Cflag |= syscall.CS8
	tio.Cc[syscall.VMIN], tio.Cc[syscall.VTIME] = 1, 0
	if _, _, e := syscall.Syscall(syscall.SYS_IOCTL, slave.Fd(), syscall.TCSETS, uintptr(unsafe.Pointer(&tio))); e != 0 {
		panic(fmt.Sprintf("verifConsoleIO: TCSETS: %v", e))
	}
	saved, err := syscall.Dup(0)
	if err != nil {
		panic("verifConsoleIO: dup: " + err.Error())
	}
	if err := syscall.Dup2(int(slave.Fd()), 0); err != nil {
		panic("verifConsoleIO: dup2: " + err.Error())
	}
	defer func() {
		syscall.Dup2(saved, 0)
		syscall.Close(saved)
	}()
	go io.Copy(io.Discard, master) // whatever the program echoes
	go master.Write(input)
	fn()
}

// H20-console: the hand-over from the console to the engine (runTerminal): k
// statements CREATE DATABASE d<i>, one of which (at a chosen position, or none)
// is instead a statement the engine refuses (USE of a database that does not
// exist); after each statement a choice between staying on the line and Enter.
// Every typed statement must reach the engine once: afterwards exactly the
// databases of the accepted statements exist.
func verifH_C20_console() {
	k := verifParam("stmts", 3)
	verifFSReset()
	verifAssert(storage.InitStorage() == nil, "init")
	bad := verifChoice("failing", k+1) // k: none
	var input []byte
	var want []string
	for i := 0; i < k; i++ {
		if i == bad {
			input = append(input, "USE nosuch;"...)
		} else {
			name := fmt.Sprintf("d%d", i)
			input = append(input, ("CREATE DATABASE " + name + ";")...)
			want = append(want, name)
		}
		if i == k-1 || verifChoice("enter", 2) == 1 {
			input = append(input, '\r')
		} else {
			input = append(input, ' ')
		}
	}
	input = append(input, keyCtrlD)
	sess := &engine.Session{}
	var runErr error
	verifConsoleIO(input, func() { runErr = runTerminal(sess) })
	verifAssert(runErr == nil, "console-ends-without-error")
	rows, _, err := storage.ShowDB()
	verifAssert(err == nil, "show-ok")
	var got []string
	for _, r := range rows {
		got = append(got, fmt.Sprint(r.Vals[0]))
	}
	verifAssert(strings.Join(got, ",") == strings.Join(want, ","), "every-accepted-statement-was-executed-once")
	verifReach("end")
}
