//go:build verif

package sql

import (
	"strings"
)

func init() {
	verifRegister("C09_seedtokens", verifH_C09_seedtokens)
	verifRegister("C09_seedsparse", verifH_C09_seedsparse)
	verifRegister("C09_tokens", verifH_C09_tokens)
	verifRegister("C09_bytes", verifH_C09_bytes)
}

// verifTokenTypes lists every token type the scanner can emit (the keys of
// Tokens): not the range markers, not EOF.
func verifTokenTypes() []int {
	var out []int
	for t := TokenType(0); t < reserved_word_end; t++ {
		if _, ok := Tokens[t]; ok {
			out = append(out, int(t))
		}
	}
	return out
}

var verifStmtKeywords = []TokenType{SELECT, INSERT, UPDATE, DELETE, CREATE, USE, SHOW}

// H09-tokens: the parser over a token list of length L whose token types are
// symbolic over the full vocabulary. Token text: text=0 one symbolic byte,
// text=1 a 20-digit number (beyond 64 bits), text=2 the word "databases".
func verifH_C09_tokens() {
	L := verifParam("len", 3)
	first := verifParam("first", -1) // >=0: the first token is that statement keyword
	textMode := verifParam("text", 0)
	vocab := verifTokenTypes()
	tl := TokenList{}
	for i := 0; i < L; i++ {
		var tt TokenType
		if i == 0 && first >= 0 {
			tt = verifStmtKeywords[first]
		} else {
			tt = TokenType(verifIntFrom("tok", vocab))
		}
		var text string
		switch textMode {
		case 0:
			b := verifBytes("txt", 1)
			verifAssume(b[0] < 0x80)
			text = string(b)
		case 1:
			text = "99999999999999999999"
		default:
			text = "databases"
		}
		tl.Add(Token{Type: tt, Line: 1, Column: i + 1, Text: text})
	}
	p := Parser{TokenList: tl}
	stmt, err := p.Parse()
	verifAssert(err != nil || stmt != nil, "statement-or-error")
	verifReach("end")
}

// H09-seedtokens: the token list of a seed statement with n symbolic tokens
// (full vocabulary) inserted at a chosen position, or replacing the n tokens
// there: reaches parser states deep inside every clause (a second LIMIT, a
// keyword inside a VALUES list, ...), where short free sequences do not get.
func verifH_C09_seedtokens() {
	seed := verifSeedStatements[verifParam("seed", 0)]
	n := verifParam("n", 1)
	replace := verifParam("replace", 0) == 1
	textMode := verifParam("text", 0)
	ts := NewTokenScanner(strings.NewReader(seed))
	var toks []Token
	for ts.Next() {
		toks = append(toks, ts.Cur())
	}
	vocab := verifTokenTypes()
	at := verifChoice("at", len(toks)+1)
	var sym []Token
	for i := 0; i < n; i++ {
		var text string
		switch textMode {
		case 0:
			b := verifBytes("txt", 1)
			verifAssume(b[0] < 0x80)
			text = string(b)
		case 1:
			text = "99999999999999999999"
		default:
			text = "databases"
		}
		sym = append(sym, Token{Type: TokenType(verifIntFrom("tok", vocab)), Line: 1, Column: 1, Text: text})
	}
	tl := TokenList{}
	for i, t := range toks {
		if i == at {
			for _, s := range sym {
				tl.Add(s)
			}
		}
		if replace && i >= at && i < at+n {
			continue
		}
		tl.Add(t)
	}
	if at == len(toks) {
		for _, s := range sym {
			tl.Add(s)
		}
	}
	p := Parser{TokenList: tl}
	stmt, err := p.Parse()
	verifAssert(err != nil || stmt != nil, "statement-or-error")
	verifReach("end")
}

// verifSeedStatements cover every production of the grammar.
var verifSeedStatements = []string{
	"SELECT a AS x, count(*), avg(c) FROM t LEFT JOIN u v ON t.a = v.a AND 1 = 1 OR 'x' != 'y' WHERE a >= 1 AND b < 'q' OR c <= 2 GROUP BY a ORDER BY a DESC, b ASC LIMIT 10 OFFSET 2",
	"SELECT *  FROM t INNER JOIN u ON t.a = u.a RIGHT JOIN w ON true = false ORDER BY a, t.b DESC OFFSET 1 LIMIT 3",
	"SELECT 1 = 1, \"quoted\" FROM t",
	"INSERT INTO t (a, b) VALUES (1, 'x'), (2, 'y')",
	"INSERT INTO t VALUES (true, false)",
	"UPDATE t SET a = 1, b = 'z' WHERE c > 3",
	"DELETE FROM t WHERE a != 1",
	"CREATE TABLE t (a INT, b VARCHAR(255), c BOOLEAN, d BIGINT)",
	"CREATE DATABASE d",
	"USE d",
	"SHOW DATABASES",
	"SHOW DATABASE",
	// non-ASCII text: 2-, 3- and 4-byte characters in a literal, in an identifier
	// (letters whose upper case is ASCII included: \u017f, \u0131) and as the last character
	"SELECT 'caf\u00e9 \u20ac \U0001f600', \u017fx, \u0131d FROM t\u00e9 WHERE n\u00e4me = '\u00e9'",
}

// every seed statement must itself parse (otherwise mutations of it explore little)
func verifH_C09_seedsparse() {
	for _, q := range verifSeedStatements {
		stmt, err := verifParseText(q)
		verifAssert(err == nil && stmt != nil, "seed-parses")
	}
	verifReach("end")
}


// H09-bytes: scanner + parser exactly as engine.parseSQL runs them.
// mode 0: n fully symbolic bytes (ASCII range; non-ASCII is covered by concrete samples)
// mode 1: seed statement `seed`, truncated at every position (by choice)
// mode 2: seed statement with `n` adjacent bytes at a chosen position replaced by symbolic ASCII bytes
// mode 3: seed statement with `n` symbolic ASCII bytes inserted at a chosen position
// mode 4: a seed statement cut at the start / middle / last byte / end, then `n` arbitrary bytes
// full=1: the symbolic bytes range over all 256 values
func verifH_C09_bytes() {
	mode := verifParam("mode", 0)
	n := verifParam("n", 1)
	full := verifParam("full", 0) == 1 // all 256 byte values instead of ASCII only
	var q string
	switch mode {
	case 0:
		b := verifBytes("b", n)
		for _, c := range b {
			verifAssume(full || c < 0x80)
		}
		q = string(b)
	case 4:
		// seed statement cut at a chosen position, followed by n arbitrary bytes
		// (all 256 values: invalid, truncated and complete UTF-8 sequences at the end of input)
		seed := verifSeedStatements[verifParam("seed", 0)]
		cuts := []int{0, len(seed) / 2, len(seed) - 1, len(seed)}
		b := verifBytes("b", n)
		q = seed[:cuts[verifChoice("cut", len(cuts))]] + string(b)
	default:
		seed := verifSeedStatements[verifParam("seed", 0)]
		switch mode {
		case 1:
			q = seed[:verifChoice("cut", len(seed)+1)]
		case 2:
			at := verifChoice("at", len(seed)-n+1)
			b := verifBytes("b", n)
			for _, c := range b {
				verifAssume(full || c < 0x80)
			}
			q = seed[:at] + string(b) + seed[at+n:]
		case 3:
			at := verifChoice("at", len(seed)+1)
			b := verifBytes("b", n)
			for _, c := range b {
				verifAssume(full || c < 0x80)
			}
			q = seed[:at] + string(b) + seed[at:]
		}
	}
	stmt, err := verifParseText(q)
	verifAssert(err != nil || stmt != nil, "statement-or-error")
	verifReach("end")
}
