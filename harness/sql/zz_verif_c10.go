//go:build verif

package sql

import "strings"

func init() {
	verifRegister("C10_tokens", verifH_C10_tokens)
	verifRegister("C10_text", verifH_C10_text)
	verifRegister("C10_literals", verifH_C10_literals)
}

// printable ASCII except the quote and the backslash
var verifLiteralBytes = func() (l []int) {
	for c := 0x20; c < 0x7f; c++ {
		if c != '\'' && c != '\\' {
			l = append(l, c)
		}
	}
	return
}()

// printable ASCII except the quote: with the backslash (bs=1), which the scanner
// passes through as ordinary text unless it escapes the closing quote
var verifLiteralBytesBS = func() (l []int) {
	for c := 0x20; c < 0x7f; c++ {
		if c != '\'' {
			l = append(l, c)
		}
	}
	return
}()

// verifLiteral returns n symbolic literal bytes. With bs=1 the class includes
// the backslash, in positions where it cannot reach the closing quote or
// another backslash (the scanner then keeps it as two ordinary characters).
func verifLiteral(n int) string {
	class := verifLiteralBytes
	bs := verifParam("bs", 0) == 1
	if bs {
		class = verifLiteralBytesBS
	}
	b := make([]byte, n)
	for i := range b {
		b[i] = byte(verifIntFrom("c", class))
	}
	if bs {
		for i := range b {
			if i == n-1 {
				verifAssume(b[i] != '\\')
			} else {
				verifAssume(verifOr(b[i] != '\\', b[i+1] != '\\'))
			}
		}
	}
	return string(b)
}

// H10-literals: a quoted string literal of n arbitrary printable bytes - which
// may spell a keyword, an operator or a number - is a string literal with
// exactly that text wherever the grammar takes a literal, in any statement, and
// what follows it in the statement is still there; a number written with
// leading zeros is that decimal number.
func verifH_C10_literals() {
	verifLiteralCases(verifParseText)
}

func verifLiteralCases(parse func(string) (interface{}, error)) {
	n := verifParam("len", 4)
	isOne := func(v interface{}) bool {
		p, ok := v.(Predicate)
		if !ok {
			return false
		}
		c, isCol := p.LHS.(ColumnReference)
		x, isInt := p.RHS.(int64)
		return isCol && c.ColumnName == "a" && p.CompOp == EQ && isInt && x == 1
	}
	switch verifChoice("stmt", 4) {
	case 0:
		lit := verifLiteral(n)
		stmt, err := parse("INSERT INTO t VALUES (1, '" + lit + "', 'x')")
		verifAssert(err == nil, "parses")
		is, ok := stmt.(InsertStatement)
		verifAssert(ok, "statement-kind")
		if ok {
			tv, _ := is.QueryExpression.(TableValueConstructor)
			verifAssert(len(tv.TableValueConstructorList) == 1 && len(tv.TableValueConstructorList[0].RowValueConstructorList) == 3, "values-row-width")
			if len(tv.TableValueConstructorList) == 1 && len(tv.TableValueConstructorList[0].RowValueConstructorList) == 3 {
				v, isStr := tv.TableValueConstructorList[0].RowValueConstructorList[1].(string)
				verifAssert(isStr && v == lit, "literal-value")
				w, isStr2 := tv.TableValueConstructorList[0].RowValueConstructorList[2].(string)
				verifAssert(isStr2 && w == "x", "value-after-the-literal")
			}
		}
	case 1:
		lit := verifLiteral(n)
		stmt, err := parse("SELECT a FROM t WHERE s = '" + lit + "' AND a = 1 ORDER BY a LIMIT 3")
		verifAssert(err == nil, "parses")
		sel, ok := stmt.(Select)
		verifAssert(ok, "statement-kind")
		if ok {
			w, _ := sel.WhereClause.(WhereClause)
			bt, isBT := w.SearchCondition.(BooleanTerm)
			verifAssert(isBT, "where-shape")
			if isBT {
				v, isStr := bt.LHS.RHS.(string)
				verifAssert(isStr && v == lit, "literal-value")
				verifAssert(isOne(bt.RHS), "condition-after-the-literal")
			}
			verifAssert(len(sel.SortSpecificationList) == 1, "order-by-after-the-literal")
			verifAssert(sel.LimitOffsetClause.LimitActive && sel.LimitOffsetClause.Limit == 3, "limit-after-the-literal")
		}
	case 2:
		lit := verifLiteral(n)
		stmt, err := parse("UPDATE t SET s = '" + lit + "', a = 2 WHERE a = 1")
		verifAssert(err == nil, "parses")
		us, ok := stmt.(UpdateStatementSearched)
		verifAssert(ok, "statement-kind")
		if ok {
			verifAssert(len(us.Set) == 2, "set-list-length")
			if len(us.Set) == 2 {
				v, isStr := us.Set[0].UpdateSource.(string)
				verifAssert(isStr && v == lit, "literal-value")
			}
			w, isW := us.Where.(WhereClause)
			verifAssert(isW && isOne(w.SearchCondition), "where-after-the-literal")
		}
	default:
		// a number of 1-3 decimal digits, leading zeros included
		nd := 1 + verifChoice("ndigits", 3)
		d := make([]byte, nd)
		val := int64(0)
		for i := range d {
			d[i] = byte(verifIntFrom("d", []int{'0', '1', '2', '3', '4', '5', '6', '7', '8', '9'}))
			val = val*10 + int64(d[i]-'0')
		}
		stmt, err := parse("DELETE FROM t WHERE b = " + string(d) + " AND a = 1")
		verifAssert(err == nil, "parses")
		ds, ok := stmt.(DeleteStatementSearched)
		verifAssert(ok, "statement-kind")
		if ok {
			w, _ := ds.WhereClause.(WhereClause)
			bt, isBT := w.SearchCondition.(BooleanTerm)
			verifAssert(isBT, "where-shape")
			if isBT {
				v, isInt := bt.LHS.RHS.(int64)
				verifAssert(isInt && v == val, "number-value")
				verifAssert(isOne(bt.RHS), "condition-after-the-literal")
			}
		}
	}
	verifReach("end")
}

// ---------------------------------------------------------------- structural equality of statements

func verifEqVal(a, b interface{}) bool {
	switch x := a.(type) {
	case nil:
		return b == nil
	case int64:
		y, ok := b.(int64)
		return ok && x == y
	case string:
		y, ok := b.(string)
		return ok && x == y
	case bool:
		y, ok := b.(bool)
		return ok && x == y
	case ColumnReference:
		y, ok := b.(ColumnReference)
		return ok && x.Qualifier == y.Qualifier && x.ColumnName == y.ColumnName
	case Predicate:
		y, ok := b.(Predicate)
		return ok && x.CompOp == y.CompOp && verifEqVal(x.LHS, y.LHS) && verifEqVal(x.RHS, y.RHS)
	case ComparisonPredicate:
		y, ok := b.(ComparisonPredicate)
		return ok && x.CompOp == y.CompOp && verifEqVal(x.LHS, y.LHS) && verifEqVal(x.RHS, y.RHS)
	case BooleanTerm:
		y, ok := b.(BooleanTerm)
		return ok && verifEqVal(x.LHS, y.LHS) && verifEqVal(x.RHS, y.RHS)
	case SearchCondition:
		y, ok := b.(SearchCondition)
		return ok && verifEqVal(x.LHS, y.LHS) && verifEqVal(x.RHS, y.RHS)
	case WhereClause:
		y, ok := b.(WhereClause)
		return ok && verifEqVal(x.SearchCondition, y.SearchCondition)
	case Count:
		y, ok := b.(Count)
		return ok && verifEqVal(x.ValueExpression, y.ValueExpression)
	case Average:
		y, ok := b.(Average)
		return ok && verifEqVal(x.ValueExpression, y.ValueExpression)
	case Asterisk:
		_, ok := b.(Asterisk)
		return ok
	case TableName:
		y, ok := b.(TableName)
		return ok && x.Name == y.Name && verifEqVal(x.CorrelationName, y.CorrelationName)
	case QualifiedJoin:
		y, ok := b.(QualifiedJoin)
		return ok && x.JoinType == y.JoinType && verifEqVal(x.LHS, y.LHS) && verifEqVal(x.RHS, y.RHS) && verifEqVal(x.JoinCondition, y.JoinCondition)
	case NumericType:
		_, ok := b.(NumericType)
		return ok
	case BigIntType:
		_, ok := b.(BigIntType)
		return ok
	case BooleanType:
		_, ok := b.(BooleanType)
		return ok
	case CharacterStringType:
		y, ok := b.(CharacterStringType)
		return ok && x.Len == y.Len && x.Type == y.Type
	}
	return false
}

func verifEqSelect(a, b Select) {
	verifAssert(len(a.SelectList) == len(b.SelectList), "select-list-length")
	for i := range a.SelectList {
		if i < len(b.SelectList) {
			verifAssert(verifEqVal(a.SelectList[i].ValueExpressionPrimary, b.SelectList[i].ValueExpressionPrimary), "select-item")
			verifAssert(a.SelectList[i].AsClause == b.SelectList[i].AsClause, "select-alias")
		}
	}
	verifAssert(len(a.FromClause) == len(b.FromClause), "from-length")
	for i := range a.FromClause {
		if i < len(b.FromClause) {
			verifAssert(verifEqVal(a.FromClause[i], b.FromClause[i]), "from-clause")
		}
	}
	verifAssert(verifEqVal(a.WhereClause, b.WhereClause), "where-clause")
	verifAssert(len(a.GroupByClause) == len(b.GroupByClause), "group-by-length")
	for i := range a.GroupByClause {
		if i < len(b.GroupByClause) {
			verifAssert(verifEqVal(a.GroupByClause[i], b.GroupByClause[i]), "group-by-item")
		}
	}
	verifAssert(len(a.SortSpecificationList) == len(b.SortSpecificationList), "order-by-length")
	for i := range a.SortSpecificationList {
		if i < len(b.SortSpecificationList) {
			x, y := a.SortSpecificationList[i], b.SortSpecificationList[i]
			verifAssert(verifEqVal(x.SortKey, y.SortKey) && x.OrderingSpecification.Type == y.OrderingSpecification.Type, "order-by-item")
		}
	}
	verifAssert(a.LimitOffsetClause == b.LimitOffsetClause, "limit-offset")
}

// ---------------------------------------------------------------- unparser

type verifGen struct {
	toks []Token
	// Sub-forms (operator, operand kinds, qualifiers, literal kinds) are not
	// independent choices - that would square the number of paths per clause -
	// but are driven by one statement-level variant v: the k-th pick among n
	// alternatives takes (v + 3k) mod n, so every alternative occurs at every
	// position for some v.
	variant int
	picks   int
}

func (g *verifGen) pick(n int) int {
	r := (g.variant + 3*g.picks) % n
	g.picks++
	return r
}

func (g *verifGen) kw(t TokenType) { g.toks = append(g.toks, Token{Type: t, Text: Tokens[t]}) }
func (g *verifGen) ident(name string) {
	g.toks = append(g.toks, Token{Type: IDENT, Text: name})
}

// name returns an identifier: symbolic single letter when sym, else a fixed word.
func verifName(tag string, sym bool, fixed string) string {
	if !sym {
		return fixed
	}
	b := verifBytes(tag, 1)
	verifAssume(verifAnd(b[0] >= 'a', b[0] <= 'z'))
	return string(b)
}

// lit appends a literal token and returns the value it denotes.
func (g *verifGen) lit(tag string, kind int) interface{} {
	switch kind {
	case 0: // integer with 1 or 2 symbolic decimal digits
		n := 1 + g.pick(2)
		d := verifBytes(tag+"d", n)
		val := int64(0)
		for i := range d {
			verifAssume(verifAnd(d[i] >= '0', d[i] <= '9'))
			val = val*10 + int64(d[i]-'0')
		}
		g.toks = append(g.toks, Token{Type: INT, Text: string(d)})
		return val
	case 1: // string of 0-2 symbolic bytes
		s := verifString(tag+"s", g.pick(3))
		g.toks = append(g.toks, Token{Type: STR, Text: s})
		return s
	case 2:
		g.kw(TRUE)
		return true
	default:
		g.kw(FALSE)
		return false
	}
}

func (g *verifGen) colref(tag string, sym bool) ColumnReference {
	cr := ColumnReference{}
	if g.pick(2) == 1 {
		cr.Qualifier = verifName(tag+"q", sym, "t")
		g.ident(cr.Qualifier)
		g.kw(DOT)
	}
	cr.ColumnName = verifName(tag+"c", sym, "a")
	g.ident(cr.ColumnName)
	return cr
}

var verifOps = []TokenType{EQ, NEQ, LT, GT, LTE, GTE}

func (g *verifGen) predicate(tag string, sym bool) Predicate {
	var lhs, rhs interface{}
	shape := g.pick(3) // col op lit | lit op col | col op col
	op := verifOps[g.pick(len(verifOps))]
	if shape == 1 {
		lhs = g.lit(tag+"l", g.pick(2))
	} else {
		lhs = g.colref(tag+"l", sym)
	}
	g.kw(op)
	if shape == 0 {
		rhs = g.lit(tag+"r", g.pick(4))
	} else {
		rhs = g.colref(tag+"r", sym)
	}
	return Predicate{ComparisonPredicate{LHS: lhs, CompOp: op, RHS: rhs}}
}

// verifCondShapes: OR-groups of AND-ed predicates (AND binds tighter than OR).
var verifCondShapes = [][]int{{1}, {2}, {1, 1}, {3}, {2, 1}, {1, 2}, {1, 1, 1}, {4}, {2, 2}, {3, 1}, {1, 3}, {1, 2, 1}}

func (g *verifGen) andChain(tag string, n int, sym bool) interface{} {
	p := g.predicate(tag+"p", sym)
	if n == 1 {
		return p
	}
	g.kw(AND)
	return BooleanTerm{LHS: p, RHS: g.andChain(tag+"n", n-1, sym)}
}

func (g *verifGen) orChain(tag string, groups []int, sym bool) interface{} {
	lhs := g.andChain(tag+"g", groups[0], sym)
	if len(groups) == 1 {
		return lhs
	}
	g.kw(OR)
	return SearchCondition{LHS: lhs, RHS: g.orChain(tag+"o", groups[1:], sym)}
}

func (g *verifGen) cond(tag string, maxShape int, sym bool) interface{} {
	return g.orChain(tag, verifCondShapes[verifChoice(tag+"cshape", maxShape)], sym)
}

func (g *verifGen) table(tag string, sym bool) TableName {
	tn := TableName{Name: verifName(tag+"t", sym, "tbl")}
	g.ident(tn.Name)
	if g.pick(2) == 1 {
		a := verifName(tag+"a", sym, "al")
		g.ident(a)
		tn.CorrelationName = a
	}
	return tn
}

func (g *verifGen) selectStmt(part int, maxShape int) Select {
	sel := Select{}
	g.kw(SELECT)
	grouped := part == 2
	sym := !grouped // GROUP BY validation compares names: keep them concrete there
	// select list
	switch {
	case grouped:
		// g1, [g2,] COUNT(*)|COUNT(c)|AVG(c) in a chosen position
		ng := 1 + verifChoice("ngroup", 3)
		names := []string{"g1", "g2", "g3"}
		aggPos := verifChoice("aggpos", ng+1)
		k := 0
		for i := 0; i <= ng; i++ {
			if i > 0 {
				g.kw(COMMA)
			}
			if i == aggPos {
				switch verifChoice("agg", 3) {
				case 0:
					g.kw(COUNT)
					g.kw(LPAREN)
					g.kw(ASTRSK)
					g.kw(RPAREN)
					sel.SelectList = append(sel.SelectList, DerivedColumn{ValueExpressionPrimary: Count{}})
				case 1:
					g.kw(COUNT)
					g.kw(LPAREN)
					g.ident("v")
					g.kw(RPAREN)
					sel.SelectList = append(sel.SelectList, DerivedColumn{ValueExpressionPrimary: Count{ValueExpression: ColumnReference{ColumnName: "v"}}})
				default:
					g.kw(AVG)
					g.kw(LPAREN)
					g.ident("v")
					g.kw(RPAREN)
					sel.SelectList = append(sel.SelectList, DerivedColumn{ValueExpressionPrimary: Average{ValueExpression: ColumnReference{ColumnName: "v"}}})
				}
				continue
			}
			g.ident(names[k])
			sel.SelectList = append(sel.SelectList, DerivedColumn{ValueExpressionPrimary: ColumnReference{ColumnName: names[k]}})
			k++
		}
		g.kw(FROM)
		g.ident("tbl")
		sel.FromClause = FromClause{TableName{Name: "tbl"}}
		if verifChoice("where", 2) == 1 {
			g.kw(WHERE)
			sel.WhereClause = WhereClause{SearchCondition: g.cond("w", 2, false)}
		}
		g.kw(GROUP)
		g.kw(BY)
		for i := 0; i < ng; i++ {
			if i > 0 {
				g.kw(COMMA)
			}
			g.ident(names[i])
			sel.GroupByClause = append(sel.GroupByClause, ColumnReference{ColumnName: names[i]})
		}
	default:
		if verifChoice("star", 2) == 1 {
			g.kw(ASTRSK)
			sel.SelectList = SelectList{{ValueExpressionPrimary: Asterisk{}}}
		} else {
			n := 1 + verifChoice("nsel", 3)
			for i := 0; i < n; i++ {
				if i > 0 {
					g.kw(COMMA)
				}
				tag := string(rune('a'+i)) + "sel"
				dc := DerivedColumn{}
				if g.pick(2) == 0 {
					dc.ValueExpressionPrimary = g.colref(tag, sym)
				} else {
					dc.ValueExpressionPrimary = g.predicate(tag, sym)
				}
				switch g.pick(3) {
				case 1:
					g.kw(AS)
					dc.AsClause = verifName(tag+"al", sym, "x")
					g.ident(dc.AsClause)
				case 2:
					dc.AsClause = verifName(tag+"al", sym, "x")
					g.ident(dc.AsClause)
				}
				sel.SelectList = append(sel.SelectList, dc)
			}
		}
		g.kw(FROM)
		var ref TableReference = g.table("f", sym)
		if part == 1 {
			nj := verifChoice("njoins", 3)
			for j := 0; j < nj; j++ {
				tag := string(rune('a'+j)) + "join"
				var jt JoinType
				switch g.pick(4) {
				case 0:
					jt = INNER_JOIN
				case 1:
					g.kw(INNER)
					jt = INNER_JOIN
				case 2:
					g.kw(LEFT)
					jt = LEFT_JOIN
				default:
					g.kw(RIGHT)
					jt = RIGHT_JOIN
				}
				g.kw(JOIN)
				rhs := g.table(tag, sym)
				g.kw(ON)
				ref = QualifiedJoin{LHS: ref, JoinType: jt, RHS: rhs, JoinCondition: g.cond(tag, 3, sym)}
			}
		}
		sel.FromClause = FromClause{ref}
		if part == 0 && verifChoice("where", 2) == 1 {
			g.kw(WHERE)
			sel.WhereClause = WhereClause{SearchCondition: g.cond("w", maxShape, sym)}
		}
	}
	if part != 1 {
		// ORDER BY
		no := verifChoice("norder", 3)
		for i := 0; i < no; i++ {
			if i == 0 {
				g.kw(ORDER)
				g.kw(BY)
			} else {
				g.kw(COMMA)
			}
			tag := string(rune('a'+i)) + "ord"
			ss := SortSpecification{SortKey: g.colref(tag, sym), OrderingSpecification: Token{Type: ASC}}
			switch g.pick(3) {
			case 1:
				g.kw(ASC)
				ss.OrderingSpecification = Token{Type: ASC, Text: Tokens[ASC]}
			case 2:
				g.kw(DESC)
				ss.OrderingSpecification = Token{Type: DESC, Text: Tokens[DESC]}
			}
			sel.SortSpecificationList = append(sel.SortSpecificationList, ss)
		}
		// LIMIT / OFFSET in both orders
		lo := verifChoice("limoff", 5)
		emit := func(isLimit bool) {
			if isLimit {
				g.kw(LIMIT)
				v := g.lit("lim", 0).(int64)
				sel.LimitActive, sel.Limit = true, int(v)
			} else {
				g.kw(OFFSET)
				v := g.lit("off", 0).(int64)
				sel.OffsetActive, sel.Offset = true, int(v)
			}
		}
		switch lo {
		case 1:
			emit(true)
		case 2:
			emit(false)
		case 3:
			emit(true)
			emit(false)
		case 4:
			emit(false)
			emit(true)
		}
	}
	return sel
}

// H10-tokens: a statement value is generated together with its standard-form
// token list (optional keywords present or absent by choice; names, digits and
// string bytes symbolic); parsing the tokens must consume all of them and
// yield exactly that statement.
//
//	kind 0: SELECT (single table, WHERE trees, ORDER BY, LIMIT/OFFSET)   kind 1: SELECT with joins
//	kind 2: SELECT with aggregates and GROUP BY lists                     kind 3: INSERT
//	kind 4: UPDATE   kind 5: DELETE   kind 6: CREATE TABLE   kind 7: CREATE DATABASE / USE / SHOW
func verifH_C10_tokens() {
	kind := verifParam("kind", 0)
	maxShape := verifParam("shapes", 7)
	g := &verifGen{variant: verifChoice("variant", verifParam("variants", 12))}
	var want interface{}
	switch kind {
	case 0, 1, 2:
		want = g.selectStmt(kind, maxShape)
	case 3:
		is := InsertStatement{}
		g.kw(INSERT)
		g.kw(INTO)
		is.TableName = verifName("t", true, "")
		g.ident(is.TableName)
		ncols := verifChoice("ncols", 4) // 0 = no column list
		if ncols > 0 {
			g.kw(LPAREN)
			for i := 0; i < ncols; i++ {
				if i > 0 {
					g.kw(COMMA)
				}
				n := verifName("col", true, "")
				g.ident(n)
				is.ColumnNames = append(is.ColumnNames, n)
			}
			g.kw(RPAREN)
		}
		g.kw(VALUES)
		nrows := 1 + verifChoice("nrows", 3)
		nvals := 1 + verifChoice("nvals", 3)
		var tvc TableValueConstructor
		for r := 0; r < nrows; r++ {
			if r > 0 {
				g.kw(COMMA)
			}
			g.kw(LPAREN)
			var rvc RowValueConstructor
			for v := 0; v < nvals; v++ {
				if v > 0 {
					g.kw(COMMA)
				}
				rvc.RowValueConstructorList = append(rvc.RowValueConstructorList, g.lit("v", g.pick(4)))
			}
			g.kw(RPAREN)
			tvc.TableValueConstructorList = append(tvc.TableValueConstructorList, rvc)
		}
		is.QueryExpression = tvc
		want = is
	case 4:
		us := UpdateStatementSearched{}
		g.kw(UPDATE)
		us.TableName = verifName("t", true, "")
		g.ident(us.TableName)
		g.kw(SET)
		n := 1 + verifChoice("nset", 3)
		for i := 0; i < n; i++ {
			if i > 0 {
				g.kw(COMMA)
			}
			sc := SetClause{ObjectColumn: verifName("col", true, "")}
			g.ident(sc.ObjectColumn)
			g.kw(EQ)
			if g.pick(2) == 0 {
				sc.UpdateSource = g.lit("v", g.pick(4))
			} else {
				sc.UpdateSource = g.colref("src", true)
			}
			us.Set = append(us.Set, sc)
		}
		if verifChoice("where", 2) == 1 {
			g.kw(WHERE)
			us.Where = WhereClause{SearchCondition: g.cond("w", maxShape, true)}
		}
		want = us
	case 5:
		ds := DeleteStatementSearched{}
		g.kw(DELETE)
		g.kw(FROM)
		ds.TableName = verifName("t", true, "")
		g.ident(ds.TableName)
		if verifChoice("where", 2) == 1 {
			g.kw(WHERE)
			ds.WhereClause = WhereClause{SearchCondition: g.cond("w", maxShape, true)}
		}
		want = ds
	case 6:
		ct := CreateTable{}
		g.kw(CREATE)
		g.kw(TABLE)
		ct.Name = verifName("t", true, "")
		g.ident(ct.Name)
		g.kw(LPAREN)
		n := 1 + verifChoice("ncols", 3)
		for i := 0; i < n; i++ {
			if i > 0 {
				g.kw(COMMA)
			}
			te := TableElement{ColumnDefinition{Name: verifName("col", true, "")}}
			g.ident(te.Name)
			switch g.pick(4) {
			case 0:
				g.kw(T_INT)
				te.DataType = NumericType{}
			case 1:
				g.kw(T_BIGINT)
				te.DataType = BigIntType{}
			case 2:
				g.kw(T_BOOL)
				te.DataType = BooleanType{}
			default:
				g.kw(T_VARCHAR)
				g.kw(LPAREN)
				l := g.lit("len", 0).(int64)
				g.kw(RPAREN)
				te.DataType = CharacterStringType{Len: l, Type: T_VARCHAR}
			}
			ct.Elements = append(ct.Elements, te)
		}
		g.kw(RPAREN)
		want = ct
	default:
		switch verifChoice("which", 4) {
		case 0:
			g.kw(CREATE)
			g.kw(DATABASE)
			n := verifName("d", true, "")
			g.ident(n)
			want = CreateDatabase{Name: n}
		case 1:
			g.kw(USE)
			n := verifName("d", true, "")
			g.ident(n)
			want = UseStatement{DBName: n}
		case 2:
			g.kw(SHOW)
			g.kw(DATABASE)
			want = ShowDatabase{}
		default:
			g.kw(SHOW)
			g.ident("databases")
			want = ShowDatabase{}
		}
	}
	if verifChoice("semicolon", 2) == 1 {
		g.kw(SEMICOLON)
	}
	for i := range g.toks {
		g.toks[i].Line, g.toks[i].Column = 1, i+1
	}
	p := Parser{TokenList: TokenList{tokens: g.toks}}
	got, err := p.Parse()
	verifAssert(err == nil, "parses")
	if err != nil {
		return
	}
	rest := len(g.toks) - p.TokenList.cur
	verifAssert(rest == 0 || (rest == 1 && g.toks[len(g.toks)-1].Type == SEMICOLON), "all-tokens-consumed")
	switch w := want.(type) {
	case Select:
		gs, ok := got.(Select)
		verifAssert(ok, "statement-kind")
		if ok {
			verifEqSelect(gs, w)
		}
	case InsertStatement:
		gi, ok := got.(InsertStatement)
		verifAssert(ok, "statement-kind")
		if ok {
			verifAssert(gi.TableName == w.TableName, "table-name")
			verifAssert(len(gi.ColumnNames) == len(w.ColumnNames), "column-list-length")
			for i := range w.ColumnNames {
				if i < len(gi.ColumnNames) {
					verifAssert(gi.ColumnNames[i] == w.ColumnNames[i], "column-name")
				}
			}
			gt, _ := gi.QueryExpression.(TableValueConstructor)
			wt := w.QueryExpression.(TableValueConstructor)
			verifAssert(len(gt.TableValueConstructorList) == len(wt.TableValueConstructorList), "values-rows-length")
			for r := range wt.TableValueConstructorList {
				if r < len(gt.TableValueConstructorList) {
					a, b := gt.TableValueConstructorList[r].RowValueConstructorList, wt.TableValueConstructorList[r].RowValueConstructorList
					verifAssert(len(a) == len(b), "values-row-width")
					for i := range b {
						if i < len(a) {
							verifAssert(verifEqVal(a[i], b[i]), "value")
						}
					}
				}
			}
		}
	case UpdateStatementSearched:
		gu, ok := got.(UpdateStatementSearched)
		verifAssert(ok, "statement-kind")
		if ok {
			verifAssert(gu.TableName == w.TableName, "table-name")
			verifAssert(len(gu.Set) == len(w.Set), "set-list-length")
			for i := range w.Set {
				if i < len(gu.Set) {
					verifAssert(gu.Set[i].ObjectColumn == w.Set[i].ObjectColumn && verifEqVal(gu.Set[i].UpdateSource, w.Set[i].UpdateSource), "set-clause")
				}
			}
			verifAssert(verifEqVal(gu.Where, w.Where), "where-clause")
		}
	case DeleteStatementSearched:
		gd, ok := got.(DeleteStatementSearched)
		verifAssert(ok, "statement-kind")
		if ok {
			verifAssert(gd.TableName == w.TableName, "table-name")
			verifAssert(verifEqVal(gd.WhereClause, w.WhereClause), "where-clause")
		}
	case CreateTable:
		gc, ok := got.(CreateTable)
		verifAssert(ok, "statement-kind")
		if ok {
			verifAssert(gc.Name == w.Name, "table-name")
			verifAssert(len(gc.Elements) == len(w.Elements), "column-defs-length")
			for i := range w.Elements {
				if i < len(gc.Elements) {
					verifAssert(gc.Elements[i].Name == w.Elements[i].Name && verifEqVal(gc.Elements[i].DataType, w.Elements[i].DataType), "column-def")
				}
			}
		}
	case CreateDatabase:
		gc, ok := got.(CreateDatabase)
		verifAssert(ok && gc.Name == w.Name, "create-database")
	case UseStatement:
		gc, ok := got.(UseStatement)
		verifAssert(ok && gc.DBName == w.DBName, "use")
	case ShowDatabase:
		_, ok := got.(ShowDatabase)
		verifAssert(ok, "show")
	}
	verifReach("end")
}

// verifTextTemplates are rendered with symbolic keyword casing and separators.
var verifTextTemplates = []string{
	"select a , t.b as x from t left join u v on t.a = v.a where a >= 1 and b < 'q' or c <= 2 order by a desc , b asc limit 10 offset 2",
	"select g1 , count ( * ) , avg ( v ) from t inner join u on t.a = u.a right join w on 1 = 1 group by g1",
	"insert into t ( a , b ) values ( 1 , 'x' ) , ( 2 , true )",
	"update t set a = 1 , b = 'z' where c > 3",
	"delete from t where a != 1 and b = false",
	"create table t ( a int , b varchar ( 255 ) , c boolean , d bigint )",
	"create database d",
	"use d",
	"show database",
}

func verifTokensOf(q string) []Token {
	ts := NewTokenScanner(strings.NewReader(q))
	var out []Token
	for ts.Next() {
		out = append(out, ts.Cur())
	}
	return out
}

// H10-text: each template is rendered to bytes where every ASCII letter of a
// keyword (words outside quotes) takes a symbolic case and every separator is a
// symbolic choice of space or tab (1 or 2 of them, by concrete choice); the
// token list must equal that of the canonical rendering (types and text, keyword
// text compared case-insensitively).
func verifH_C10_text() {
	tmpl := verifTextTemplates[verifParam("template", 0)]
	double := verifParam("double", 0) == 1
	// newline: 1 = every separator is a line feed, 2 = CR LF line ends, 3 = a
	// symbolic choice of line feed or bare carriage return per separator
	nlMode := verifParam("newline", 0)
	newline := nlMode >= 1
	canon := verifTokensOf(tmpl)
	var b []byte
	inQuote := false
	for i := 0; i < len(tmpl); i++ {
		ch := tmpl[i]
		switch {
		case ch == '\'':
			inQuote = !inQuote
			b = append(b, ch)
		case inQuote:
			b = append(b, ch)
		case ch == ' ':
			n := 1
			if double {
				n = 2
			}
			for k := 0; k < n; k++ {
				if newline {
					switch nlMode {
					case 2:
						b = append(b, '\r', '\n')
					case 3:
						b = append(b, verifSelU8(verifBool("cr"), '\r', '\n'))
					default:
						b = append(b, '\n')
					}
					continue
				}
				b = append(b, verifSelU8(verifBool("tab"), '\t', ' '))
			}
		case ch >= 'a' && ch <= 'z':
			b = append(b, verifSelU8(verifBool("upper"), ch-32, ch))
		default:
			b = append(b, ch)
		}
	}
	if verifParam("pad", 0) == 1 {
		// a run of blanks is inserted in front of a chosen word so that the word
		// straddles the scanner's 1024-byte read buffer: its first j bytes (1..6, by
		// choice) end the first buffer, the rest starts the second
		var starts, lens []int
		inQ := false
		for i := 0; i < len(tmpl); i++ {
			if tmpl[i] == '\'' {
				inQ = !inQ
			}
			isW := func(c byte) bool { return c >= 'a' && c <= 'z' || c >= '0' && c <= '9' || c == '_' }
			if !inQ && isW(tmpl[i]) && (i == 0 || !isW(tmpl[i-1])) && i > 0 && tmpl[i-1] == ' ' {
				n := 0
				for i+n < len(tmpl) && isW(tmpl[i+n]) {
					n++
				}
				if n >= 2 {
					starts = append(starts, i)
					lens = append(lens, n)
				}
			}
		}
		if len(starts) == 0 || double || newline {
			verifAssume(false)
		}
		w := verifChoice("pad-word", len(starts))
		maxJ := lens[w] - 1
		if maxJ > 6 {
			maxJ = 6
		}
		j := 1 + verifChoice("pad-split", maxJ)
		// without doubled separators the rendering has the template's offsets
		at := starts[w]
		fill := 1024 - j - at
		padded := append([]byte{}, b[:at]...)
		for k := 0; k < fill; k++ {
			padded = append(padded, ' ')
		}
		b = append(padded, b[at:]...)
	}
	got := verifTokensOf(string(b))
	verifAssert(len(got) == len(canon), "token-count")
	for i := range canon {
		if i < len(got) {
			verifAssert(got[i].Type == canon[i].Type, "token-type")
			if canon[i].Type == INT || canon[i].Type == STR {
				verifAssert(got[i].Text == canon[i].Text, "literal-text")
			}
		}
	}
	verifReach("end")
}
