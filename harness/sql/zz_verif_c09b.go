//go:build verif

package sql

func init() {
	verifRegister("C09_lists", verifH_C09_lists)
}

var verifListNames = []int{'a', 'b', 'c'}

// H09-lists: statements whose clauses are lists of columns - a select list of
// k items, GROUP BY of m and ORDER BY of n columns - with every column name
// symbolic over {a,b,c} (so the lists may repeat, miss or permute each other's
// names), the first `qual` select items and GROUP BY columns qualified with the
// table name, the first select item optionally aliased (alias name symbolic) and
// the last one optionally an aggregate. The parser's cross-checks between the
// lists (validateGroupByFields ...) must answer with a statement or an error.
func verifH_C09_lists() {
	k, m, n := verifParam("sel", 1), verifParam("grp", 1), verifParam("ord", 0)
	qual := verifParam("qual", 0)
	alias := verifParam("alias", 0) == 1
	agg := verifParam("agg", 0) == 1
	tl := TokenList{}
	col := 0
	add := func(tt TokenType, text string) {
		col++
		tl.Add(Token{Type: tt, Line: 1, Column: col, Text: text})
	}
	name := func(tag string) string {
		return string([]byte{byte(verifIntFrom(tag, verifListNames))})
	}
	ident := func(tag string, qualified bool) {
		if qualified {
			add(IDENT, "t")
			add(DOT, ".")
		}
		add(IDENT, name(tag))
	}
	add(SELECT, "SELECT")
	for i := 0; i < k; i++ {
		if i > 0 {
			add(COMMA, ",")
		}
		if agg && i == k-1 {
			add(COUNT, "count")
			add(LPAREN, "(")
			add(ASTRSK, "*")
			add(RPAREN, ")")
			continue
		}
		ident("s", i < qual)
		if alias && i == 0 {
			add(AS, "AS")
			add(IDENT, name("alias"))
		}
	}
	add(FROM, "FROM")
	add(IDENT, "t")
	if m > 0 {
		add(GROUP, "GROUP")
		add(BY, "BY")
		for i := 0; i < m; i++ {
			if i > 0 {
				add(COMMA, ",")
			}
			ident("g", i < qual)
		}
	}
	if n > 0 {
		add(ORDER, "ORDER")
		add(BY, "BY")
		for i := 0; i < n; i++ {
			if i > 0 {
				add(COMMA, ",")
			}
			ident("o", false)
		}
	}
	p := Parser{TokenList: tl}
	stmt, err := p.Parse()
	verifAssert(err != nil || stmt != nil, "statement-or-error")
	verifReach("end")
}
