//go:build verif

package sql

// Helpers shared by several harness files, kept out of the zz_verif_cNN.go files so
// that one of those can be left out (it no longer compiles against a changed
// tree) without taking the others with it.

import (
	"strings"
)

func verifParseText(q string) (interface{}, error) {
	ts := NewTokenScanner(strings.NewReader(q))
	tl := TokenList{}
	for ts.Next() {
		tl.Add(ts.Cur())
	}
	p := Parser{TokenList: tl}
	return p.Parse()
}
