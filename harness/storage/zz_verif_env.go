//go:build verif

package storage

import "container/list"

// Helpers shared by the statement-level harnesses (exported so that harnesses
// in package engine can use them). They only compose existing mkdb functions.

// VerifOpenRelation opens database db like OpenRelation but with the flush
// timer off (autoFlushCache=false), so flush placement is chosen by the checker.
func VerifOpenRelation(db string, cacheSize int) (*RelationService, error) {
	path, exists, err := dbFilePath(db)
	if err != nil {
		return nil, err
	}
	if !exists {
		return nil, ErrDBNotExist
	}
	fs, err := newFileStore(path, false)
	if err != nil {
		return nil, err
	}
	if cacheSize > 0 {
		fs.cache = NewLRU(cacheSize)
	}
	if err := fs.open(); err != nil {
		return nil, err
	}
	w, err := newWal(db, true)
	if err != nil {
		return nil, err
	}
	return &RelationService{fs: fs, wal: w}, nil
}

// VerifSetCacheSize replaces the (still empty or clean) page cache of an open store by one of the given capacity.
func VerifSetCacheSize(rs *RelationService, n int) { rs.fs.cache = NewLRU(n) }

// VerifFlush triggers what the 100 ms timer would do.
func VerifFlush(rs *RelationService) error { return rs.fs.flushPages() }

// VerifAbandon closes the OS files of rs without flushing anything (process death).
func VerifAbandon(rs *RelationService) {
	rs.fs.file.Close()
	rs.wal.reader.Close()
}

// VerifDirtyCacheEntry is the predicate handed to verifMapOrderChoice: it selects
// the entries of a page-cache map that hold a dirty page (the ones a flush writes).
func VerifDirtyCacheEntry(v any) bool {
	e, ok := v.(*list.Element)
	if !ok || e == nil {
		return false
	}
	ce, ok := e.Value.(*cacheEntry)
	return ok && ce.val != nil && ce.val.isDirty()
}

// VerifDirtyCount is the number of dirty pages the store's cache holds.
func VerifDirtyCount(rs *RelationService) int {
	lru := rs.fs.cache
	n := 0
	for e := lru.list.Front(); e != nil; e = e.Next() {
		if ce, ok := e.Value.(*cacheEntry); ok && ce.val != nil && ce.val.isDirty() {
			n++
		}
	}
	return n
}

// VerifStoreLock returns the address of the store's RWMutex (for verifLockHeld).
func VerifStoreLock(rs *RelationService) any { return &rs.fs.mtx }

func VerifLastKey(rs *RelationService) uint32 { return rs.fs.lastKey }

// VerifTableRoot returns the file offset sys_pages records for table name (-1 if unknown).
func VerifTableRoot(rs *RelationService, name string) int64 {
	off, err := rs.getRelationFileOffset(name)
	if err != nil {
		return -1
	}
	return off
}

// VerifTreeRootIsLeaf reports whether the page at the recorded root of table name is a leaf.
func VerifTreeRootIsLeaf(rs *RelationService, name string) bool {
	off, err := rs.getRelationFileOffset(name)
	if err != nil {
		return false
	}
	pg, err := rs.fs.fetch(uint64(off))
	return err == nil && pg.isLeaf
}

func init() {
	verifRegister("SMOKE_storage", verifH_SMOKE_storage)
}

func verifH_SMOKE_storage() {
	verifFSReset()
	verifAssert(InitStorage() == nil, "init")
	verifAssert(CreateDB("db") == nil, "createdb")
	rs, err := VerifOpenRelation("db", 0)
	verifAssert(err == nil, "open")
	rel := &Relation{Fields: []FieldDef{{Name: "a", DataType: TypeInt}, {Name: "s", DataType: TypeVarchar, Len: 10}}}
	verifAssert(rs.CreateTable(rel, "t") == nil, "createtable")
	x := verifI32("x")
	batch, err := rs.Insert("t", nil, []interface{}{int64(x), "hi"})
	verifAssert(err == nil, "insert")
	verifAssert(rs.FlushWALBatch(batch) == nil, "wal")
	rows, fields, err := rs.Fetch("t")
	verifAssert(err == nil, "fetch")
	verifAssert(len(rows) == 1 && len(fields) == 2, "shape")
	if len(rows) == 1 {
		v, _ := rows[0].Vals[0].(int64)
		verifAssert(v == int64(x), "value")
	}
	verifObserve("rows", len(rows))
	VerifAbandon(rs)
	// crash + recover
	verifAssert(InitStorage() == nil, "recover")
	rs2, err := VerifOpenRelation("db", 0)
	verifAssert(err == nil, "reopen")
	rows, _, err = rs2.Fetch("t")
	verifAssert(err == nil && len(rows) == 1, "after-recovery")
	if len(rows) == 1 {
		v, _ := rows[0].Vals[0].(int64)
		verifAssert(v == int64(x), "value-after-recovery")
	}
	verifReach("end")
}
