//go:build verif

package storage

func init() {
	verifRegister("C15_lru", verifH_C15_lru)
}

// reference model: entries in recency order, most recent first
type verifLRUModel struct {
	keys []uint64
	vals []*btreeNode
	cap  int
}

func (m *verifLRUModel) find(k uint64) int {
	for i := range m.keys {
		if m.keys[i] == k {
			return i
		}
	}
	return -1
}

func (m *verifLRUModel) touch(i int) {
	k, v := m.keys[i], m.vals[i]
	copy(m.keys[1:i+1], m.keys[0:i])
	copy(m.vals[1:i+1], m.vals[0:i])
	m.keys[0], m.vals[0] = k, v
}

func (m *verifLRUModel) set(k uint64, n *btreeNode) bool {
	if i := m.find(k); i >= 0 {
		m.vals[i] = n
		m.touch(i)
		return true
	}
	if len(m.keys) == m.cap {
		victim := -1
		for i := len(m.keys) - 1; i >= 0; i-- {
			if !m.vals[i].dirty {
				victim = i
				break
			}
		}
		if victim < 0 {
			return false
		}
		m.keys = append(m.keys[:victim], m.keys[victim+1:]...)
		m.vals = append(m.vals[:victim], m.vals[victim+1:]...)
	}
	m.keys = append([]uint64{k}, m.keys...)
	m.vals = append([]*btreeNode{n}, m.vals...)
	return true
}

func verifLRUCompare(lru *LRUCache, m *verifLRUModel) {
	verifAssert(len(lru.cache) == len(m.keys), "map-size")
	verifAssert(lru.list.Len() == len(m.keys), "list-size")
	verifAssert(len(lru.cache) <= m.cap, "capacity")
	i := 0
	for e := lru.list.Front(); e != nil && i < len(m.keys); e = e.Next() {
		ce := e.Value.(*cacheEntry)
		verifAssert(ce.key == any(m.keys[i]), "recency-order")
		verifAssert(ce.val == m.vals[i], "value")
		me, ok := lru.cache[m.keys[i]]
		verifAssert(ok && me == e, "map-list-bijection")
		i++
	}
	verifAssert(i == len(m.keys), "list-walk")
}

// H15: capacity c, s entries pre-loaded through the real API, then d free
// operations; keys and dirty flags symbolic; compared with the model after every step.
func verifH_C15_lru() {
	c := verifParam("cap", 2)
	s := verifParam("pre", 0)
	d := verifParam("ops", 2)
	fs := &fileStore{cache: NewLRU(c)}
	lru := fs.cache
	m := &verifLRUModel{cap: c}
	for i := 0; i < s; i++ {
		k := verifU64("prekey")
		verifAssume(m.find(k) < 0)
		n := &btreeNode{dirty: verifBool("predirty")}
		ok := lru.set(k, n)
		verifAssert(ok == m.set(k, n), "pre-set")
	}
	verifLRUCompare(lru, m)
	for step := 0; step < d; step++ {
		switch verifChoice("op", 5) {
		case 4: // the same page object is stored again under its key (fileStore.update does this on every flush)
			if len(m.vals) == 0 {
				verifAssume(false)
			}
			j := verifChoice("which", len(m.vals))
			k, n := m.keys[j], m.vals[j]
			err := fs.setCache(k, n)
			verifAssert(err == nil, "restore-same-page-ok")
			verifAssert(m.set(k, n), "restore-same-page-model")
		case 0: // set through fileStore.setCache
			k := verifU64("key")
			n := &btreeNode{dirty: verifBool("dirty")}
			absent := m.find(k) < 0
			full := len(m.keys) == m.cap
			allDirty := true
			for _, v := range m.vals {
				allDirty = allDirty && v.dirty
			}
			// the page that must be evicted, if any: least recently used clean one
			var victim *btreeNode
			if absent && full {
				for i := len(m.vals) - 1; i >= 0; i-- {
					if !m.vals[i].dirty {
						victim = m.vals[i]
						break
					}
				}
			}
			err := fs.setCache(k, n)
			want := m.set(k, n)
			verifAssert((err == nil) == want, "set-result")
			verifAssert((err == ErrLRUCacheFull) == (absent && full && allDirty), "refused-iff-full-of-dirty")
			if victim != nil {
				still := false
				for e := lru.list.Front(); e != nil; e = e.Next() {
					still = still || e.Value.(*cacheEntry).val == victim
				}
				verifAssert(!still, "evicts-lru-clean")
			}
			for e := lru.list.Front(); e != nil; e = e.Next() {
				_ = e
			}
		case 1: // get
			k := verifU64("key")
			got, ok := lru.get(k)
			i := m.find(k)
			verifAssert(ok == (i >= 0), "get-found")
			if i >= 0 {
				verifAssert(got == m.vals[i], "get-value")
				m.touch(i)
			} else {
				verifAssert(got == nil, "get-nil")
			}
		case 2: // a resident page becomes dirty
			if len(m.vals) == 0 {
				verifAssume(false)
			}
			j := verifChoice("which", len(m.vals))
			m.vals[j].markDirty(verifU64("lsn"))
			verifAssert(m.vals[j].isDirty(), "markDirty")
		case 3: // a resident page is flushed
			if len(m.vals) == 0 {
				verifAssume(false)
			}
			j := verifChoice("which", len(m.vals))
			m.vals[j].markClean()
			verifAssert(!m.vals[j].isDirty(), "markClean")
		}
		verifLRUCompare(lru, m)
		// no dirty page was dropped: every dirty node ever inserted is still resident
	}
	verifReach("end")
}

func init() {
	verifRegister("C15_big", verifH_C15_big)
}

// H15-big: one insertion into a full cache of realistic size. Capacity C
// (hundreds of entries), filled through the real API with keys 1..C; the first
// clean entry seen from the cold end sits at a chosen depth p (every colder
// entry is dirty; p ranges over the ends of the list, the middle and the
// neighbourhood of every power of two up to C, or there is no clean entry at
// all); the flags of the warmer entries and of the new page are symbolic. The
// insertion must evict exactly that entry - however deep the walk has to go -
// and be refused only when every entry is dirty.
func verifH_C15_big() {
	C := verifParam("cap", 100)
	fs := &fileStore{cache: NewLRU(C)}
	lru := fs.cache
	// depth of the first clean entry, counted from the cold end
	cands := []int{0, 1, 2, C / 2, C - 2, C - 1}
	for q := 4; q < C; q *= 2 {
		cands = append(cands, q-1, q, q+1)
	}
	var depths []int
	seen := map[int]bool{}
	for _, d := range cands {
		if d >= 0 && d < C && !seen[d] {
			seen[d] = true
			depths = append(depths, d)
		}
	}
	pi := verifChoice("depth", len(depths)+1)
	p := -1 // no clean entry
	if pi < len(depths) {
		p = depths[pi]
	}
	nodes := make([]*btreeNode, C+1)
	// key k is inserted k-th, so key 1 is the coldest: depth d holds key d+1
	for k := 1; k <= C; k++ {
		n := &btreeNode{}
		d := k - 1
		switch {
		case p < 0 || d < p:
			n.dirty = true
		case d == p:
			n.dirty = false
		default:
			n.dirty = verifBool("warm-dirty")
		}
		nodes[k] = n
		verifAssert(lru.set(uint64(k), n), "fill")
	}
	verifAssert(len(lru.cache) == C && lru.list.Len() == C, "full")
	nn := &btreeNode{dirty: verifBool("new-dirty")}
	err := fs.setCache(uint64(C+1), nn)
	if p < 0 {
		verifAssert(err == ErrLRUCacheFull, "refused-when-full-of-dirty")
		verifAssert(len(lru.cache) == C && lru.list.Len() == C, "nothing-dropped")
		verifReach("refused")
		return
	}
	verifAssert(err == nil, "refused-only-when-full-of-dirty")
	if err != nil {
		return
	}
	verifAssert(len(lru.cache) == C && lru.list.Len() == C, "capacity")
	_, gone := lru.cache[uint64(p+1)]
	verifAssert(!gone, "evicts-lru-clean")
	got, ok := lru.cache[uint64(C+1)]
	verifAssert(ok && got.Value.(*cacheEntry).val == nn, "new-entry-resident")
	verifAssert(lru.list.Front() == got, "new-entry-most-recent")
	// every other entry is still there, in the same relative order
	e := lru.list.Back()
	for k := 1; k <= C; k++ {
		if k == p+1 {
			continue
		}
		ce, isCE := e.Value.(*cacheEntry)
		verifAssert(isCE && ce.key == any(uint64(k)) && ce.val == nodes[k] && lru.cache[uint64(k)] == e, "others-untouched")
		e = e.Prev()
	}
	verifReach("end")
}
