//go:build verif

package storage

// Helpers shared by several harness files, kept out of the zz_verif_cNN.go files so
// that one of those can be left out (it no longer compiles against a changed
// tree) without taking the others with it.

// verifEqBytes asserts a == b byte-wise without short-circuit branching.
func verifEqBytes(a, b []byte, id string) {
	verifAssert(len(a) == len(b), id+"/len")
	if len(a) != len(b) {
		return
	}
	ok := true
	for i := range a {
		ok = ok && a[i] == b[i]
	}
	verifAssert(ok, id)
}
