//go:build verif

package storage

import "bytes"

func init() {
	verifRegister("C12_leaf", verifH_C12_leaf)
	verifRegister("C12_internal", verifH_C12_internal)
	verifRegister("C12_disk", verifH_C12_disk)
}


var verifValLens = []int{0, 1, 2, 399, 400}

// verifMakeLeaf builds an arbitrary leaf node the engine can produce: n live
// cells with identity offsets, valueSize == len(valueBytes), optionally `dead`
// cells beyond the offsets array (what a split leaves behind). Value lengths:
// all cells have length base, except cell `odd` (if >= 0) which has length oddLen.
func verifMakeLeaf(n, base, odd, oddLen, dead int) *btreeNode {
	node := &btreeNode{isLeaf: true}
	node.fileOffset = verifU64("fileOffset")
	node.lastLSN = verifU64("lsn")
	node.hasLSib = verifBool("hasLSib")
	node.hasRSib = verifBool("hasRSib")
	node.lSibFileOffset = verifU64("lSib")
	node.rSibFileOffset = verifU64("rSib")
	node.dirty = verifBool("dirty")
	for i := 0; i < n+dead; i++ {
		l := base
		if i == odd {
			l = oddLen
		}
		node.appendLeafCell(verifU32("key"), verifBytes("val", l))
		node.leafCells[i].deleted = verifBool("deleted")
	}
	node.offsets = node.offsets[:n]
	verifPermuteOffsets(node, n, dead)
	return node
}

// verifPermuteOffsets: with perm=1 the offset array (logical position -> cell
// slot) is an arbitrary permutation chosen by forking, not the identity that
// appending produces (out-of-order insertion, as WAL replay and splits of inner
// leaves do, leaves any permutation behind; cycles of length 3 and more included).
func verifPermuteOffsets(node *btreeNode, n, dead int) {
	if verifParam("perm", 0) != 1 || dead > 0 || n < 2 {
		return
	}
	rest := append([]uint16(nil), node.offsets...)
	var out []uint16
	for len(rest) > 0 {
		i := 0
		if len(rest) > 1 {
			i = verifChoice("perm", len(rest))
		}
		out = append(out, rest[i])
		rest = append(rest[:i], rest[i+1:]...)
	}
	copy(node.offsets, out)
}

func verifSameLeaf(dec, node *btreeNode, n int) {
	verifAssert(dec.isLeaf, "isLeaf")
	verifAssert(dec.fileOffset == node.fileOffset, "fileOffset")
	verifAssert(dec.lastLSN == node.lastLSN, "lastLSN")
	verifAssert(dec.hasLSib == node.hasLSib, "hasLSib")
	verifAssert(dec.hasRSib == node.hasRSib, "hasRSib")
	verifAssert(dec.lSibFileOffset == node.lSibFileOffset, "lSib")
	verifAssert(dec.rSibFileOffset == node.rSibFileOffset, "rSib")
	verifAssert(len(dec.offsets) == n, "cell-count")
	for i := 0; i < n && i < len(dec.offsets); i++ {
		verifAssert(int(dec.offsets[i]) < len(dec.leafCells), "offset-in-range")
		if int(dec.offsets[i]) >= len(dec.leafCells) {
			continue
		}
		a, b := dec.leafCells[dec.offsets[i]], node.leafCells[node.offsets[i]]
		verifAssert(a != nil, "cell-present")
		if a == nil {
			continue
		}
		verifAssert(a.key == b.key, "key")
		verifAssert(a.deleted == b.deleted, "deleted")
		verifAssert(a.valueSize == b.valueSize, "valueSize")
		verifEqBytes(a.valueBytes, b.valueBytes, "valueBytes")
	}
}

// H12-leaf: encode yields exactly one page and decode gives back the same node.
func verifH_C12_leaf() {
	n := verifParam("cells", 2)
	if n < 0 {
		n = maxLeafNodeCells - n - 2
	}
	base := verifValLens[verifChoice("baseLen", len(verifValLens))]
	odd, oddLen := -1, 0
	if n > 0 && verifChoice("hasOdd", 2) == 1 {
		odd = verifChoice("oddPos", n)
		oddLen = verifValLens[verifChoice("oddLen", len(verifValLens))]
		verifAssume(oddLen != base)
	}
	dead := verifParam("dead", 0)
	node := verifMakeLeaf(n, base, odd, oddLen, dead)

	buf, err := node.encode()
	verifAssert(err == nil, "encode-ok")
	verifAssert(buf.Len() == pageSize, "page-size")

	dec := &btreeNode{isLeaf: true}
	err = dec.decode(bytes.NewBuffer(buf.Bytes()))
	verifAssert(err == nil, "decode-ok")
	verifSameLeaf(dec, node, n)
	verifReach("end")
}

// H12-internal: same for internal nodes with k separators.
func verifH_C12_internal() {
	k := verifParam("cells", 2)
	if k < 0 {
		// relative to the capacity the code declares: -1 = the largest node the tree
		// keeps (one below the split threshold), -2 = the threshold itself
		k = maxInternalNodeCells - k - 2
	}
	dead := verifParam("dead", 0)
	node := &btreeNode{}
	node.fileOffset = verifU64("fileOffset")
	node.lastLSN = verifU64("lsn")
	node.rightOffset = verifU64("rightOffset")
	for i := 0; i < k+dead; i++ {
		node.appendInternalCell(verifU32("key"), verifU64("child"))
	}
	node.offsets = node.offsets[:k]
	verifPermuteOffsets(node, k, dead)
	buf, err := node.encode()
	verifAssert(err == nil, "encode-ok")
	verifAssert(buf.Len() == pageSize, "page-size")
	dec := &btreeNode{}
	err = dec.decode(bytes.NewBuffer(buf.Bytes()))
	verifAssert(err == nil, "decode-ok")
	verifAssert(!dec.isLeaf, "isInternal")
	verifAssert(dec.fileOffset == node.fileOffset, "fileOffset")
	verifAssert(dec.lastLSN == node.lastLSN, "lastLSN")
	verifAssert(dec.rightOffset == node.rightOffset, "rightOffset")
	verifAssert(len(dec.offsets) == k, "cell-count")
	keysOK, childOK, offOK := true, true, true
	for i := 0; i < k && i < len(dec.offsets); i++ {
		offOK = offOK && dec.offsets[i] == node.offsets[i]
		a, b := dec.internalCells[dec.offsets[i]], node.internalCells[node.offsets[i]]
		keysOK = keysOK && a.key == b.key
		childOK = childOK && a.fileOffset == b.fileOffset
	}
	verifAssert(offOK, "offsets")
	verifAssert(keysOK, "key")
	verifAssert(childOK, "child")
	verifReach("end")
}

// H12-disk: write through fileStore.update, read back through a fresh store
// (cold cache) with fileStore.fetch, which also picks the node kind from byte 0.
func verifH_C12_disk() {
	n := verifParam("cells", 2)
	base := verifValLens[verifChoice("baseLen", 3)]
	verifFSReset()
	if err := MakeDataDir(); err != nil {
		verifAssume(false)
	}
	fs1, err := newFileStore("data/tbl", false)
	verifAssert(err == nil, "open1")
	leaf := verifChoice("kind", 2) == 0
	var node *btreeNode
	slot := uint64(pageSize) * uint64(1+verifChoice("slot", 3))
	if leaf {
		node = verifMakeLeaf(n, base, -1, 0, 0)
	} else {
		node = &btreeNode{}
		node.lastLSN = verifU64("lsn")
		node.rightOffset = verifU64("rightOffset")
		for i := 0; i < n; i++ {
			node.appendInternalCell(verifU32("key"), verifU64("child"))
		}
	}
	node.fileOffset = slot
	verifAssert(fs1.update(node) == nil, "update-ok")
	fs1.file.Close()

	fs2, err := newFileStore("data/tbl", false)
	verifAssert(err == nil, "open2")
	got, err := fs2.fetch(slot)
	verifAssert(err == nil, "fetch-ok")
	if err != nil || got == nil {
		return
	}
	verifAssert(got.isLeaf == leaf, "kind")
	if leaf {
		verifSameLeaf(got, node, n)
	} else {
		verifAssert(got.rightOffset == node.rightOffset, "rightOffset")
		verifAssert(got.lastLSN == node.lastLSN, "lastLSN")
		verifAssert(len(got.offsets) == n, "cell-count")
		ok := true
		for i := 0; i < n && i < len(got.offsets); i++ {
			a, b := got.internalCells[got.offsets[i]], node.internalCells[node.offsets[i]]
			ok = ok && a.key == b.key && a.fileOffset == b.fileOffset
		}
		verifAssert(ok, "cells")
	}
	// a second fetch is served from the cache and is the same object
	again, err := fs2.fetch(slot)
	verifAssert(err == nil && again == got, "cache-hit")
	verifReach("end")
}
