//go:build verif

package storage

import "bytes"

func init() {
	verifRegister("C12_leaf", verifH_C12_leaf)
}

// verifEqBytes asserts a == b byte-wise without short-circuit branching.
func verifEqBytes(a, b []byte, id string) {
	verifAssert(len(a) == len(b), id+"/len")
	if len(a) != len(b) {
		return
	}
	ok := true
	for i := range a {
		ok = ok && a[i] == b[i]
	}
	verifAssert(ok, id)
}

// H12-leaf: an arbitrary leaf node the engine can produce (identity offsets,
// valueSize == len(valueBytes)) encodes to one page and decodes to the same node.
func verifH_C12_leaf() {
	n := verifParam("cells", 2)
	vlen := verifParam("vlen", 2)
	node := &btreeNode{isLeaf: true}
	node.fileOffset = verifU64("fileOffset")
	node.lastLSN = verifU64("lsn")
	node.hasLSib = verifBool("hasLSib")
	node.hasRSib = verifBool("hasRSib")
	node.lSibFileOffset = verifU64("lSib")
	node.rSibFileOffset = verifU64("rSib")
	for i := 0; i < n; i++ {
		node.appendLeafCell(verifU32("key"), verifBytes("val", vlen))
		node.leafCells[i].deleted = verifBool("deleted")
	}
	buf, err := node.encode()
	verifAssert(err == nil, "encode-ok")
	verifAssert(buf.Len() == pageSize, "page-size")

	dec := &btreeNode{isLeaf: true}
	err = dec.decode(bytes.NewBuffer(buf.Bytes()))
	verifAssert(err == nil, "decode-ok")
	verifAssert(dec.fileOffset == node.fileOffset, "fileOffset")
	verifAssert(dec.lastLSN == node.lastLSN, "lastLSN")
	verifAssert(dec.hasLSib == node.hasLSib, "hasLSib")
	verifAssert(dec.hasRSib == node.hasRSib, "hasRSib")
	verifAssert(dec.lSibFileOffset == node.lSibFileOffset, "lSib")
	verifAssert(dec.rSibFileOffset == node.rSibFileOffset, "rSib")
	verifAssert(len(dec.offsets) == n, "cell-count")
	verifAssert(len(dec.leafCells) == n, "cell-count2")
	for i := 0; i < n && i < len(dec.offsets) && i < len(dec.leafCells); i++ {
		verifAssert(dec.offsets[i] == node.offsets[i], "offsets")
		a, b := dec.leafCells[dec.offsets[i]], node.leafCells[node.offsets[i]]
		verifAssert(a.key == b.key, "key")
		verifAssert(a.deleted == b.deleted, "deleted")
		verifAssert(a.valueSize == b.valueSize, "valueSize")
		verifEqBytes(a.valueBytes, b.valueBytes, "valueBytes")
	}
	verifReach("end")
}
