//go:build verif

package storage

func init() {
	verifRegister("C11_wal", verifH_C11_wal)
}

// H11-wal: the shape invariants after start-up recovery. A table (and a small
// second one in the same file) is filled through the relation service - every
// insert logged -, with a flush of the page cache every `flush` rows, so that
// the log still holds every record while the pages on disk are at various
// ages; then the process ends (clean Close or abandoned without flush, by
// choice), InitStorage replays the log, and the trees of both tables and of the
// two catalog tables must satisfy the invariant and hold exactly the inserted
// keys. With n = 1300 the table's tree has three levels (its internal root has
// split), so records logged against earlier roots are replayed against pages
// that have since become inner nodes.
func verifH_C11_wal() {
	n := verifParam("n", 40)
	flushEvery := verifParam("flush", 7)
	verifFSReset()
	verifAssert(InitStorage() == nil, "init")
	verifAssert(CreateDB("db") == nil, "create-db")
	rs, err := VerifOpenRelation("db", 0)
	verifAssert(err == nil, "open")
	if err != nil {
		return
	}
	rel := &Relation{Fields: []FieldDef{{DataType: TypeInt, Name: "a"}, {DataType: TypeVarchar, Name: "s", Len: 8}}}
	verifAssert(rs.CreateTable(rel, "t") == nil, "create-t")
	verifAssert(rs.CreateTable(rel, "u") == nil, "create-u")
	ins := func(tbl string, i int) {
		var s interface{} = "x"
		if i < 3 {
			s = verifString("s", 1)
		}
		b, err := rs.Insert(tbl, []string{"a", "s"}, []interface{}{int64(i), s})
		verifAssert(err == nil, "inv/insert-ok")
		verifAssert(rs.FlushWALBatch(b) == nil, "inv/log-ok")
	}
	for i := 0; i < n; i++ {
		ins("t", i)
		if i%100 == 50 {
			ins("u", i)
		}
		if flushEvery > 0 && i%flushEvery == flushEvery-1 {
			verifAssert(VerifFlush(rs) == nil, "inv/flush")
		}
	}
	check := func(rs *RelationService, pre string) {
		for _, name := range []string{"t", "u", pageTableName, schemaTableName} {
			off, err := rs.getRelationFileOffset(name)
			verifAssert(err == nil, pre+"root-known")
			if err != nil {
				continue
			}
			bt := &BTree{store: rs.fs}
			root, err := rs.fs.fetch(uint64(off))
			verifAssert(err == nil, pre+"root-readable")
			if err != nil {
				continue
			}
			bt.setRoot(root)
			w := verifTreeInvariant(bt, pre)
			if name == "t" {
				live := 0
				for i := range w.keys {
					if !w.dead[i] {
						live++
					}
				}
				verifAssert(live == n, pre+"all-keys-present")
			}
		}
	}
	check(rs, "inv/")
	if verifChoice("end", 2) == 0 {
		verifAssert(rs.Close() == nil, "close")
	} else {
		VerifAbandon(rs)
	}
	verifAssert(InitStorage() == nil, "recovery-ok")
	rs2, err := VerifOpenRelation("db", 0)
	verifAssert(err == nil, "reopen")
	if err != nil {
		return
	}
	check(rs2, "inv/restart/")
	// and once more: recovery ran on a log that recovery has already replayed
	VerifAbandon(rs2)
	verifAssert(InitStorage() == nil, "recovery2-ok")
	rs3, err := VerifOpenRelation("db", 0)
	verifAssert(err == nil, "reopen2")
	if err != nil {
		return
	}
	check(rs3, "inv/restart2/")
	verifReach("end")
}
