//go:build verif

package storage

import "bytes"

func init() {
	verifRegister("C11_step", verifH_C11_step)
	verifRegister("C11_hist", verifH_C11_hist)
}

// ---------------------------------------------------------------- invariant walker

type verifLeafInfo struct {
	pg    *btreeNode
	depth int
}

type verifWalk struct {
	bt     *BTree
	seen   []uint64
	leaves []verifLeafInfo
	keys   []uint32 // all keys in tree order (tombstoned ones included)
	dead   []bool
	vals   [][]byte
	pre    string
}

// walk checks the subtree rooted at offset: every key k satisfies lo <= k < hi
// (hasLo/hasHi say whether the bound exists) and returns the subtree's smallest key.
func (w *verifWalk) walk(off uint64, depth int, hasLo bool, lo uint32, hasHi bool, hi uint32) (min uint32, nonEmpty bool) {
	for _, s := range w.seen {
		verifAssert(s != off, w.pre+"page-reached-once")
		if s == off {
			return 0, false
		}
	}
	w.seen = append(w.seen, off)
	pg, err := w.bt.store.fetch(off)
	verifAssert(err == nil && pg != nil, w.pre+"page-fetch")
	if err != nil || pg == nil {
		return 0, false
	}
	verifCheck(pg.fileOffset == off, w.pre+"page-knows-its-offset")
	if pg.isLeaf {
		verifCheck(len(pg.offsets) < maxLeafNodeCells, w.pre+"leaf-not-over-capacity")
		w.leaves = append(w.leaves, verifLeafInfo{pg, depth})
		for i, o := range pg.offsets {
			verifAssert(int(o) < len(pg.leafCells), w.pre+"offset-valid")
			c := pg.leafCells[o]
			if i > 0 {
				verifCheck(pg.leafCells[pg.offsets[i-1]].key < c.key, w.pre+"leaf-keys-ascending")
			}
			if hasLo {
				verifCheck(lo <= c.key, w.pre+"key-above-lower-separator")
			}
			if hasHi {
				verifCheck(c.key < hi, w.pre+"key-below-upper-separator")
			}
			verifCheck(int(c.valueSize) == len(c.valueBytes), w.pre+"value-size")
			w.keys = append(w.keys, c.key)
			w.dead = append(w.dead, c.deleted)
			w.vals = append(w.vals, c.valueBytes)
		}
		if len(pg.offsets) == 0 {
			return 0, false
		}
		return pg.leafCells[pg.offsets[0]].key, true
	}
	verifCheck(len(pg.offsets) < maxInternalNodeCells, w.pre+"internal-not-over-capacity")
	verifCheck(len(pg.offsets) > 0, w.pre+"internal-has-separator")
	curLo, curHasLo := lo, hasLo
	first := true
	for i, o := range pg.offsets {
		verifAssert(int(o) < len(pg.internalCells), w.pre+"offset-valid")
		c := pg.internalCells[o]
		if i > 0 {
			verifCheck(pg.internalCells[pg.offsets[i-1]].key < c.key, w.pre+"separators-ascending")
		}
		if hasHi {
			verifCheck(c.key < hi, w.pre+"separator-below-upper-bound")
		}
		m, ne := w.walk(c.fileOffset, depth+1, curHasLo, curLo, true, c.key)
		if first {
			min, nonEmpty, first = m, ne, false
		}
		if i > 0 && ne {
			// separator i-1 is the first key of the subtree to its right
			verifCheck(pg.internalCells[pg.offsets[i-1]].key == m, w.pre+"separator-is-first-key-of-right-subtree")
		}
		curLo, curHasLo = c.key, true
	}
	m, ne := w.walk(pg.rightOffset, depth+1, curHasLo, curLo, hasHi, hi)
	if ne && len(pg.offsets) > 0 {
		verifCheck(pg.internalCells[pg.offsets[len(pg.offsets)-1]].key == m, w.pre+"separator-is-first-key-of-right-subtree")
	}
	if first {
		min, nonEmpty = m, ne
	}
	return min, nonEmpty
}

// verifTreeInvariant asserts the C11 invariant on bt and returns the walk.
func verifTreeInvariant(bt *BTree, pre string) *verifWalk {
	w := &verifWalk{bt: bt, pre: pre}
	w.walk(bt.rootOffset, 0, false, 0, false, 0)
	// equal leaf depth
	for i := 1; i < len(w.leaves); i++ {
		verifCheck(w.leaves[i].depth == w.leaves[0].depth, pre+"leaves-same-depth")
	}
	// keys strictly ascending across leaves
	for i := 1; i < len(w.keys); i++ {
		verifCheck(w.keys[i-1] < w.keys[i], pre+"keys-ascending-across-leaves")
	}
	// leaf chain, left to right and right to left
	for i, l := range w.leaves {
		if i == 0 {
			verifCheck(!l.pg.hasLSib, pre+"leftmost-has-no-left-sibling")
		} else {
			verifCheck(l.pg.hasLSib && l.pg.lSibFileOffset == w.leaves[i-1].pg.fileOffset, pre+"left-link")
		}
		if i == len(w.leaves)-1 {
			verifCheck(!l.pg.hasRSib, pre+"rightmost-has-no-right-sibling")
		} else {
			verifCheck(l.pg.hasRSib && l.pg.rSibFileOffset == w.leaves[i+1].pg.fileOffset, pre+"right-link")
		}
	}
	// scans agree with the tree order
	var fwd, bwd []uint32
	bt.scanRight(func(c *leafCell) (ScanAction, error) { fwd = append(fwd, c.key); return KeepScanning, nil })
	bt.scanLeft(func(c *leafCell) (ScanAction, error) { bwd = append(bwd, c.key); return KeepScanning, nil })
	live := 0
	for i := range w.keys {
		if !w.dead[i] {
			verifCheck(live < len(fwd) && fwd[live] == w.keys[i], pre+"scan-right-is-tree-order")
			live++
		}
	}
	verifCheck(len(fwd) == live, pre+"scan-right-count")
	verifCheck(len(bwd) == live, pre+"scan-left-count")
	for i := range bwd {
		if i < len(fwd) {
			verifCheck(bwd[i] == fwd[len(fwd)-1-i], pre+"scan-left-is-reverse")
		}
	}
	// point lookup
	for i, k := range w.keys {
		c, err := bt.findCell(k)
		verifAssert(err == nil, pre+"find-ok")
		if w.dead[i] {
			verifCheck(c == nil, pre+"find-skips-tombstone")
		} else {
			verifCheck(c != nil && c.key == k, pre+"find-finds-every-key")
		}
	}
	return w
}

// ---------------------------------------------------------------- symbolic pre-state

type verifTreeSpec struct {
	bt      *BTree
	ms      *memoryStore
	lastKey uint32
}

// verifNewLeaf makes a leaf with n cells; keys are fresh symbolic values above *prev.
func verifNewLeaf(st store, n int, prev *uint32, first *bool, vlen int, spine bool) *btreeNode {
	pg := &btreeNode{isLeaf: true}
	st.append(pg)
	// deadmode 0: all cells live; 1: the two cells around the split point of a
	// full leaf (indexes n/2-1 and n/2... of this leaf) have symbolic tombstones;
	// 2: every cell's tombstone is symbolic
	deadmode := verifParam("deadmode", 1)
	if !spine && deadmode == 1 {
		deadmode = 0
	}
	symkeys := spine || verifParam("symkeys", 1) == 1
	for i := 0; i < n; i++ {
		var k uint32
		if symkeys {
			k = verifU32("k")
		} else {
			k = *prev + 7 // concrete keys off the right spine (large shapes)
		}
		if !*first && symkeys {
			verifAssume(k > *prev)
		}
		*first = false
		*prev = k
		pg.appendLeafCell(k, verifBytes("v", vlen))
		mid := (n + 1) / 2
		if deadmode == 2 || (deadmode == 1 && (i == mid-1 || i == mid)) {
			pg.leafCells[i].deleted = verifBool("dead")
		}
	}
	pg.lastLSN = verifU64("lsn")
	return pg
}

func verifLink(l, r *btreeNode) {
	l.hasRSib, l.rSibFileOffset = true, r.fileOffset
	r.hasLSib, r.lSibFileOffset = true, l.fileOffset
}

// verifBuildTree constructs (directly, not through a history) a well-formed tree:
//
//	height 1: a root leaf with n cells
//	height 2: a root with k separators over k+1 leaves; the rightmost leaf has n cells, the others `fill`
//	height 3: a root with k2 separators; its rightmost child is an internal node with k separators
//	          (other children: internal nodes with 1 separator), leaves as above
//
// All keys are symbolic and strictly ascending in tree order.
func verifBuildTree(st store, height, n, k, k2, fill, vlen int) *BTree {
	bt := &BTree{store: st}
	var prev uint32
	first := true
	var lastLeaf *btreeNode
	spine := false
	mkLeaf := func(cells int) *btreeNode {
		pg := verifNewLeaf(st, cells, &prev, &first, vlen, spine)
		if lastLeaf != nil {
			verifLink(lastLeaf, pg)
		}
		lastLeaf = pg
		return pg
	}
	// mkInternal builds an internal node over seps+1 leaves; rightFill = cells of its last leaf
	mkInternal := func(seps, rightFill int, onSpine bool) (*btreeNode, uint32) {
		in := &btreeNode{}
		st.append(in)
		var minKey uint32
		var pendingLeft *btreeNode
		for i := 0; i <= seps; i++ {
			cells := fill
			if i == seps {
				cells = rightFill
			}
			if cells == 0 && i < seps {
				cells = 1
			}
			spine = onSpine && i == seps
			pg := mkLeaf(cells)
			var firstKey uint32
			if cells > 0 {
				firstKey = pg.leafCells[0].key
			} else {
				// an empty rightmost leaf: its (virtual) first key is any key above prev
				firstKey = verifU32("sep")
				verifAssume(firstKey > prev)
				prev = firstKey
			}
			if i == 0 {
				minKey = firstKey
			} else {
				in.appendInternalCell(firstKey, pendingLeft.fileOffset)
			}
			pendingLeft = pg
		}
		in.rightOffset = pendingLeft.fileOffset
		in.lastLSN = verifU64("lsn")
		return in, minKey
	}
	switch height {
	case 1:
		spine = true
		root := mkLeaf(n)
		bt.setRoot(root)
	case 2:
		root, _ := mkInternal(k, n, true)
		bt.setRoot(root)
	case 3:
		root := &btreeNode{}
		st.append(root)
		var pendingLeft *btreeNode
		for i := 0; i <= k2; i++ {
			var child *btreeNode
			var minKey uint32
			if i == k2 {
				child, minKey = mkInternal(k, n, true)
			} else {
				child, minKey = mkInternal(1, fill, false)
			}
			if i > 0 {
				root.appendInternalCell(minKey, pendingLeft.fileOffset)
			}
			pendingLeft = child
		}
		root.rightOffset = pendingLeft.fileOffset
		bt.setRoot(root)
	default:
		panic("bad height")
	}
	// lastKey: anything at or above the largest key in the tree, below the wrap-around
	lk := verifU32("lastKey")
	if !first {
		verifAssume(lk >= prev)
	}
	verifAssume(lk < 0xffffffff)
	switch s := st.(type) {
	case *memoryStore:
		s.lastKey = lk
	case *fileStore:
		s.lastKey = lk
	}
	return bt
}

// verifWhich picks one of the n keys; with param whichlast=m only the last m
// (those on the right spine, where the shape-dependent behaviour is) are candidates.
func verifWhich(n int) int {
	m := verifParam("whichlast", 0)
	if m <= 0 || m > n {
		m = n
	}
	return n - 1 - verifChoice("which", m)
}

// H11-step / H01-step: one operation from an arbitrary well-formed tree.
// Assertions named inv/... state C11 (shape), content/... state C01 (contents).
func verifH_C11_step() {
	height := verifParam("height", 1)
	n := verifParam("n", 3)
	k := verifParam("k", 1)
	k2 := verifParam("k2", 1)
	fill := verifParam("fill", 2)
	vlen := verifParam("vlen", 1)
	onDisk := verifParam("disk", 0) == 1

	var st store
	var fst *fileStore
	if onDisk {
		verifFSReset()
		verifAssume(MakeDataDir() == nil)
		var err error
		fst, err = newFileStore("data/tbl", false)
		verifAssert(err == nil, "open")
		fst.nextFreeOffset = pageSize
		st = fst
	} else {
		st = &memoryStore{}
	}
	bt := verifBuildTree(st, height, n, k, k2, fill, vlen)
	if onDisk {
		// write everything out and continue on a cold store: the step then runs on decoded pages
		for _, e := range fst.cache.cache {
			e.Value.(*cacheEntry).val.markDirty(0)
		}
		verifAssert(fst.flushPages() == nil, "flush")
		fst.file.Close()
		fst2, err := newFileStore("data/tbl", false)
		verifAssert(err == nil, "reopen")
		verifAssert(fst2.open() == nil, "read-header")
		verifAssert(fst2.lastKey == fst.lastKey && fst2.nextFreeOffset == fst.nextFreeOffset, "header-roundtrip")
		bt = &BTree{store: fst2, rootOffset: bt.rootOffset}
		st = fst2
	}
	before := verifTreeInvariant(bt, "pre/")
	verifReach("pre-state-well-formed")

	switch verifChoice("op", verifParam("ops", 4)) {
	case 0: // insert, as the engine does it: key = lastKey+1
		val := verifBytes("newval", verifParam("newvlen", 1))
		wantKey := st.getLastKey() + 1
		id, _, err := bt.insert(val)
		verifAssert(err == nil, "content/insert-ok")
		verifAssert(id == wantKey, "content/new-row-id")
		verifAssert(st.getLastKey() == wantKey, "content/last-key-advanced")
		after := verifTreeInvariant(bt, "inv/")
		verifAssert(len(after.keys) == len(before.keys)+1, "content/one-more-key")
		same := true
		for i := range before.keys {
			if i < len(after.keys) {
				same = same && after.keys[i] == before.keys[i] && after.dead[i] == before.dead[i] && bytes.Equal(after.vals[i], before.vals[i])
			}
		}
		verifAssert(same, "content/old-cells-unchanged")
		if len(after.keys) > 0 {
			last := len(after.keys) - 1
			verifAssert(after.keys[last] == wantKey && !after.dead[last] && bytes.Equal(after.vals[last], val), "content/new-cell-last")
		}
		verifReach("insert-done")
	case 1: // replay of an insert that is already there: must change nothing
		if len(before.keys) == 0 {
			verifAssume(false)
		}
		j := verifWhich(len(before.keys))
		err := bt.insertKey(before.keys[j], verifU64("replaylsn"), verifBytes("newval", 1))
		verifAssert(err != nil, "content/duplicate-key-refused")
		after := verifTreeInvariant(bt, "inv/")
		verifAssert(len(after.keys) == len(before.keys), "content/duplicate-changes-nothing")
		verifReach("replay-done")
	case 2: // tombstone a live key (what MarkDeleted does)
		if len(before.keys) == 0 {
			verifAssume(false)
		}
		j := verifWhich(len(before.keys))
		verifAssume(!before.dead[j])
		c, err := bt.findCell(before.keys[j])
		verifAssert(err == nil && c != nil, "content/find-for-delete")
		if c != nil {
			c.deleted = true
			c.pg.markDirty(verifU64("dellsn"))
		}
		after := verifTreeInvariant(bt, "inv/")
		verifAssert(len(after.keys) == len(before.keys), "content/delete-keeps-cells")
		ok := true
		for i := range before.keys {
			if i < len(after.keys) {
				ok = ok && after.keys[i] == before.keys[i] && after.dead[i] == (before.dead[i] || i == j)
			}
		}
		verifAssert(ok, "content/exactly-one-tombstone-added")
		verifReach("delete-done")
	case 3: // update a live cell in place
		if len(before.keys) == 0 {
			verifAssume(false)
		}
		j := verifWhich(len(before.keys))
		verifAssume(!before.dead[j])
		c, err := bt.findCell(before.keys[j])
		verifAssert(err == nil && c != nil, "content/find-for-update")
		nv := verifBytes("newval", verifParam("newvlen", 1))
		if c != nil {
			verifAssert(c.pg.updateCell(c.key, nv) == nil, "content/update-ok")
			c.pg.markDirty(verifU64("updlsn"))
		}
		after := verifTreeInvariant(bt, "inv/")
		ok := len(after.keys) == len(before.keys)
		for i := range before.keys {
			if i < len(after.keys) {
				if i == j {
					ok = ok && bytes.Equal(after.vals[i], nv)
				} else {
					ok = ok && bytes.Equal(after.vals[i], before.vals[i])
				}
				ok = ok && after.keys[i] == before.keys[i] && after.dead[i] == before.dead[i]
			}
		}
		verifAssert(ok, "content/only-that-cell-updated")
		verifReach("update-done")
	}
	if onDisk {
		// what the operation left behind must survive a flush and a cold reload
		fstNow := st.(*fileStore)
		verifAssert(fstNow.flushPages() == nil, "inv/post-flush")
		fstNow.file.Close()
		fst3, err := newFileStore("data/tbl", false)
		verifAssert(err == nil && fst3.open() == nil, "inv/post-reopen")
		bt3 := &BTree{store: fst3, rootOffset: bt.rootOffset}
		verifTreeInvariant(bt3, "inv/reloaded/")
	}
	verifReach("end")
}

// H11-hist: from the empty tree, n ascending inserts through BTree.insert with
// tombstones in between; invariant after every `every`-th operation and at the end.
// Values are symbolic but the shape is driven by the (concrete) row count.
func verifH_C11_hist() {
	n := verifParam("n", 20)
	every := verifParam("every", 1)
	vlen := verifParam("vlen", 1)
	trees := verifParam("trees", 1)
	onDisk := verifParam("disk", 0) == 1
	reload := verifParam("reload", 0)
	var st store
	var fst *fileStore
	if onDisk {
		verifFSReset()
		verifAssume(MakeDataDir() == nil)
		var err error
		fst, err = newFileStore("data/tbl", false)
		verifAssert(err == nil, "open")
		fst.nextFreeOffset = pageSize
		st = fst
	} else {
		st = &memoryStore{}
	}
	bts := make([]*BTree, trees)
	for t := range bts {
		root := &btreeNode{isLeaf: true}
		root.markDirty(0)
		st.append(root)
		bts[t] = &BTree{store: st}
		bts[t].setRoot(root)
	}
	var model [][]uint32 = make([][]uint32, trees)
	for i := 0; i < n; i++ {
		t := i % trees
		id, _, err := bts[t].insert(verifBytes("v", vlen))
		verifAssert(err == nil, "inv/insert-ok")
		model[t] = append(model[t], id)
		if i%5 == 3 {
			// tombstone the key inserted two steps ago in this tree
			if len(model[t]) >= 2 {
				c, _ := bts[t].findCell(model[t][len(model[t])-2])
				if c != nil {
					c.deleted = true
					c.pg.markDirty(0)
				}
			}
		}
		if onDisk && reload > 0 && i%reload == reload-1 {
			verifAssert(fst.flushPages() == nil, "inv/flush")
			fst.file.Close()
			nf, err := newFileStore("data/tbl", false)
			verifAssert(err == nil && nf.open() == nil, "inv/reopen")
			fst = nf
			st = nf
			for _, b := range bts {
				b.store = nf
			}
		}
		if i%every == every-1 || i == n-1 {
			for _, b := range bts {
				w := verifTreeInvariant(b, "inv/")
				_ = w
			}
		}
	}
	for t, b := range bts {
		w := verifTreeInvariant(b, "inv/")
		verifAssert(len(w.keys) == len(model[t]), "inv/all-keys-present")
		for i := range w.keys {
			if i < len(model[t]) {
				verifAssert(w.keys[i] == model[t][i], "inv/keys-are-the-inserted-ids")
			}
		}
	}
	verifObserve("n", n)
	verifReach("end")
}
