//go:build verif

package storage

import (
	"bytes"
	"math"
)

func init() {
	verifRegister("C08_codec", verifH_C08_codec)
	verifRegister("C08_limit", verifH_C08_limit)
}

var verifColNames = []string{"c0", "c1", "c2", "c3"}
var verifStrLens = []int{0, 1, 3}

// verifTypedValue returns a symbolic value of column type dt.
func verifTypedValue(dt DataType, name string) interface{} {
	switch dt {
	case TypeInt, TypeBigInt:
		return verifI64(name)
	case TypeBoolean:
		return verifBool(name)
	case TypeVarchar:
		return verifString(name, verifStrLens[verifChoice("strlen", len(verifStrLens))])
	}
	panic("bad type")
}

func verifSameValue(a, b interface{}) bool {
	switch x := a.(type) {
	case nil:
		return b == nil
	case int64:
		y, ok := b.(int64)
		return ok && x == y
	case bool:
		y, ok := b.(bool)
		return ok && x == y
	case string:
		y, ok := b.(string)
		return ok && x == y
	}
	return false
}

// H08-codec: every schema of ncols columns over the four types; per column a
// NULL, a right-typed or a wrong-typed value. Encode succeeds iff every non-NULL
// value has the column's type and INT values fit 32 bits; then Decode returns it bit for bit.
func verifH_C08_codec() {
	ncols := verifParam("cols", 2)
	rel := &Relation{}
	vals := map[string]interface{}{}
	wantOK := true
	for i := 0; i < ncols; i++ {
		dt := DataType(verifChoice("type", 4))
		rel.Fields = append(rel.Fields, FieldDef{Name: verifColNames[i], DataType: dt, Len: 255})
		switch verifChoice("valkind", 3) {
		case 0: // NULL: key absent or explicit nil
			if verifChoice("nilkind", 2) == 1 {
				vals[verifColNames[i]] = nil
			}
		case 1:
			v := verifTypedValue(dt, "v")
			vals[verifColNames[i]] = v
			if dt == TypeInt {
				x := v.(int64)
				inRange := x <= math.MaxInt32 && x >= math.MinInt32
				wantOK = wantOK && inRange
			}
		case 2: // wrong type: a value of the "next" type family
			var other DataType
			switch dt {
			case TypeInt, TypeBigInt:
				other = TypeVarchar
			case TypeVarchar:
				other = TypeBoolean
			default:
				other = TypeBigInt
			}
			vals[verifColNames[i]] = verifTypedValue(other, "w")
			wantOK = false
		}
	}
	tup := &Tuple{Vals: vals, Relation: rel}
	buf, err := tup.Encode()
	verifAssert((err == nil) == wantOK, "accept-iff-valid")
	if err != nil {
		verifAssert(err == ErrTypeMismatch || err == ErrIntOutOfRange, "error-kind")
		verifReach("refused")
		return
	}
	verifAssert(checkRowSizeLimit(buf.Bytes()) == nil, "small-row-fits")
	out := &Tuple{Vals: map[string]interface{}{}, Relation: rel}
	derr := out.Decode(bytes.NewBuffer(buf.Bytes()))
	verifAssert(derr == nil, "decode-ok")
	for i := 0; i < ncols; i++ {
		verifAssert(verifSameValue(vals[verifColNames[i]], out.Vals[verifColNames[i]]), "value-roundtrip")
	}
	verifAssert(len(out.Vals) <= ncols, "no-extra-columns")
	verifReach("end")
}

// H08-limit: a row whose encoding is exactly L bytes is accepted by insert and
// update iff L <= 400, and the stored bytes are the row's bytes.
func verifH_C08_limit() {
	// varchar column: 1 (null flag) + 4 (length) + n bytes
	L := verifParam("rowlen", 400)
	n := L - 5
	rel := &Relation{Fields: []FieldDef{{Name: "s", DataType: TypeVarchar, Len: 1000}}}
	s := verifString("s", n)
	tup := &Tuple{Vals: map[string]interface{}{"s": s}, Relation: rel}
	buf, err := tup.Encode()
	verifAssert(err == nil, "encode-ok")
	verifAssert(buf.Len() == L, "row-length")
	row := buf.Bytes()

	node := &btreeNode{isLeaf: true}
	err = node.insertLeafCell(0, 1, row)
	verifAssert((err == nil) == (L <= maxValueSize), "insert-accept-iff-fits")
	if err != nil {
		verifAssert(err == ErrRowTooLarge, "insert-error-kind")
		verifAssert(len(node.leafCells) == 0 && len(node.offsets) == 0, "refused-insert-stores-nothing")
	} else {
		verifEqBytes(node.leafCells[0].valueBytes, row, "insert-stores-row")
		// and it survives the page codec
		pg, e := node.encode()
		verifAssert(e == nil, "page-encode")
		dec := &btreeNode{isLeaf: true}
		verifAssert(dec.decode(bytes.NewBuffer(pg.Bytes())) == nil, "page-decode")
		verifEqBytes(dec.leafCells[0].valueBytes, row, "page-roundtrip")
		out := &Tuple{Vals: map[string]interface{}{}, Relation: rel}
		verifAssert(out.Decode(bytes.NewBuffer(dec.leafCells[0].valueBytes)) == nil, "tuple-decode")
		got, _ := out.Vals["s"].(string)
		verifAssert(got == s, "string-roundtrip")
	}

	// update path: start from a small stored row
	node2 := &btreeNode{isLeaf: true}
	small := []byte{0, 1, 0, 0, 0, 'x'}
	verifAssert(node2.insertLeafCell(0, 7, small) == nil, "seed-insert")
	err = node2.updateCell(7, row)
	verifAssert((err == nil) == (L <= maxValueSize), "update-accept-iff-fits")
	if err != nil {
		verifEqBytes(node2.leafCells[0].valueBytes, small, "refused-update-keeps-old")
	} else {
		verifEqBytes(node2.leafCells[0].valueBytes, row, "update-stores-row")
		verifAssert(node2.leafCells[0].valueSize == uint32(L), "update-size")
	}
	verifReach("end")
}
