//go:build verif

package sql

// Engine-development harness (not part of any registered check): a battery of
// standard-library and language constructs that a change to mkdb may plausibly
// start using. Each item is run in the engine and natively on the same inputs;
// the observation logs must agree. An item that stops the engine ("unsupported",
// ENGINE-ERROR) is a construct whose use by a future change would leave a check
// undecided - those are fixed in the engine or listed in DESIGN.md 2.4.

import (
	"bufio"
	"bytes"
	"container/heap"
	"container/list"
	"encoding/binary"
	"errors"
	"fmt"
	"io"
	"math"
	"math/bits"
	"slices"
	"sort"
	"strconv"
	"strings"
	"sync"
	"sync/atomic"
	"unicode"
	"unicode/utf8"
)

func init() {
	verifRegister("X_std", verifH_X_std)
}

type verifIntHeap []int

func (h verifIntHeap) Len() int           { return len(h) }
func (h verifIntHeap) Less(i, j int) bool { return h[i] < h[j] }
func (h verifIntHeap) Swap(i, j int)      { h[i], h[j] = h[j], h[i] }
func (h *verifIntHeap) Push(x any)        { *h = append(*h, x.(int)) }
func (h *verifIntHeap) Pop() any {
	old := *h
	n := len(old)
	x := old[n-1]
	*h = old[:n-1]
	return x
}

type verifMyErr struct{ code int }

func (e *verifMyErr) Error() string { return "myerr " + strconv.Itoa(e.code) }

func verifGenMax[T int | int64 | string](a, b T) T {
	if a > b {
		return a
	}
	return b
}

type verifPair[K comparable, V any] struct {
	k K
	v V
}

type verifRec struct {
	A uint32
	B int64
	C bool
	D [3]byte
}

var verifStdItems = []func(x int64, s string, bs []byte) any{
	// 0: strings basics
	func(x int64, s string, bs []byte) any {
		return []any{strings.Fields(" a  b c "), strings.Split("a,b,c", ","), strings.SplitN("a,b,c", ",", 2),
			strings.Contains("hello", "ell"), strings.ContainsRune("hello", 'l'), strings.ContainsAny("hello", "xyzo"),
			strings.HasPrefix("hello", "he"), strings.HasSuffix("hello", "lo"), strings.Index("hello", "l"),
			strings.IndexByte("hello", 'l'), strings.IndexRune("hello", 'o'), strings.LastIndex("hello", "l"),
			strings.Repeat("ab", 3), strings.Replace("aaa", "a", "b", 2), strings.ReplaceAll("aaa", "a", "b")}
	},
	// 1: strings trimming / case
	func(x int64, s string, bs []byte) any {
		return []any{strings.Trim("xxhixx", "x"), strings.TrimLeft("xxhi", "x"), strings.TrimRight("hixx", "x"),
			strings.TrimPrefix("prefix-a", "prefix-"), strings.TrimSuffix("a.go", ".go"),
			strings.TrimFunc("  a ", unicode.IsSpace), strings.EqualFold("Go", "GO"),
			strings.Map(func(r rune) rune { return r + 1 }, "abc"), strings.Count("cheese", "e"),
			strings.ToUpper("abc"), strings.ToLower("ABC"), strings.TrimSpace(" a b "), strings.Title("ab cd")}
	},
	// 2: strings.Cut, Builder, Reader, Replacer
	func(x int64, s string, bs []byte) any {
		a, b, ok := strings.Cut("k=v", "=")
		var sb strings.Builder
		sb.WriteString("ab")
		sb.WriteByte('c')
		sb.WriteRune('d')
		sb.Grow(10)
		n := sb.Len()
		r := strings.NewReader("xyz")
		c, _ := r.ReadByte()
		rest, _ := io.ReadAll(r)
		rp := strings.NewReplacer("a", "1", "b", "2")
		return []any{a, b, ok, sb.String(), n, c, string(rest), rp.Replace("abc")}
	},
	// 3: strconv
	func(x int64, s string, bs []byte) any {
		i, e1 := strconv.Atoi("123")
		_, e2 := strconv.Atoi("12a")
		j, _ := strconv.ParseInt("-77", 10, 64)
		u, _ := strconv.ParseUint("ff", 16, 64)
		b, _ := strconv.ParseBool("true")
		q := strconv.Quote("a\"b")
		uq, _ := strconv.Unquote("\"a\\nb\"")
		return []any{i, e1 == nil, e2 != nil, j, u, b, strconv.Itoa(-45), strconv.FormatInt(255, 2), q, uq,
			string(strconv.AppendInt(nil, 42, 10)), strconv.FormatBool(false)}
	},
	// 4: strconv.ParseFloat / FormatFloat
	func(x int64, s string, bs []byte) any {
		f, _ := strconv.ParseFloat("2.5", 64)
		return []any{f, strconv.FormatFloat(1.25, 'f', 2, 64)}
	},
	// 5: bytes
	func(x int64, s string, bs []byte) any {
		var buf bytes.Buffer
		buf.Write([]byte{1, 2, 3})
		buf.WriteByte(4)
		buf.WriteString("ab")
		first, _ := buf.ReadByte()
		nx := buf.Next(2)
		l := buf.Len()
		buf.Truncate(1)
		rd := bytes.NewReader([]byte("hello"))
		p := make([]byte, 3)
		n, _ := rd.Read(p)
		return []any{bytes.Equal([]byte("a"), []byte("a")), bytes.Compare([]byte("a"), []byte("b")),
			bytes.Contains([]byte("hello"), []byte("ll")), bytes.Index([]byte("hello"), []byte("lo")),
			bytes.HasPrefix([]byte("hello"), []byte("he")), string(bytes.TrimSpace([]byte(" a "))),
			first, nx, l, buf.Bytes(), n, string(p), string(bytes.ToUpper([]byte("ab"))),
			bytes.IndexByte([]byte("abc"), 'c'), string(bytes.Repeat([]byte("z"), 3))}
	},
	// 6: sort
	func(x int64, s string, bs []byte) any {
		a := []int{5, 2, 9, 1, 7, 3, 8, 6, 4, 0, 11, 15, 13, 12, 14, 10}
		sort.Ints(a)
		b := []string{"pear", "apple", "fig"}
		sort.Strings(b)
		c := []verifPair[int, string]{{3, "c"}, {1, "a"}, {3, "b"}, {2, "z"}}
		sort.SliceStable(c, func(i, j int) bool { return c[i].k < c[j].k })
		d := []int{3, 1, 2}
		sort.Sort(sort.Reverse(sort.IntSlice(d)))
		idx := sort.SearchInts(a, 7)
		idx2 := sort.Search(len(a), func(i int) bool { return a[i] >= 12 })
		e := []int{4, 4, 1}
		sort.Stable(sort.IntSlice(e))
		return []any{a, b, fmt.Sprint(c), d, idx, idx2, e, sort.IntsAreSorted(a)}
	},
	// 7: slices package
	func(x int64, s string, bs []byte) any {
		a := []int{5, 2, 9, 1}
		slices.Sort(a)
		b := []string{"b", "a", "c"}
		slices.SortFunc(b, func(p, q string) int { return strings.Compare(q, p) })
		c := slices.Clone(a)
		slices.Reverse(c)
		i, found := slices.BinarySearch(a, 5)
		d := slices.Insert([]int{1, 4}, 1, 2, 3)
		e := slices.Delete([]int{1, 2, 3, 4}, 1, 3)
		return []any{a, b, c, slices.Contains(a, 9), slices.Index(a, 9), slices.Equal(a, c), i, found, d, e,
			slices.Max(a), slices.Min(a), slices.IndexFunc(a, func(v int) bool { return v > 4 })}
	},
	// 8: builtins min/max/clear, generics
	func(x int64, s string, bs []byte) any {
		return []any{verifGenMax(3, 4), verifGenMax("a", "b"), verifGenMax(int64(9), int64(2))}
	},
	// 9: math / bits
	func(x int64, s string, bs []byte) any {
		return []any{math.Round(2.5), math.Floor(-1.5), math.Ceil(1.2), math.Trunc(-1.7), math.Abs(-3.0), math.Max(1, 2), math.Min(1, 2),
			math.MaxInt32, math.Float64bits(1.0), bits.Len(255), bits.TrailingZeros(8), bits.OnesCount(7), bits.LeadingZeros64(1),
			math.Sqrt(16), math.Pow(2, 10), math.Mod(7, 3), math.IsNaN(math.NaN()), math.Inf(1) > 1}
	},
	// 10: encoding/binary byte order helpers and varints
	func(x int64, s string, bs []byte) any {
		b := make([]byte, 8)
		binary.LittleEndian.PutUint16(b, 0x1234)
		binary.LittleEndian.PutUint32(b[2:], 0xdeadbeef)
		c := make([]byte, 8)
		binary.BigEndian.PutUint64(c, 0x0102030405060708)
		d := binary.LittleEndian.AppendUint32(nil, 7)
		e := binary.AppendUvarint(nil, 300)
		v, n := binary.Uvarint(e)
		vb := make([]byte, binary.MaxVarintLen64)
		m := binary.PutVarint(vb, -5)
		sv, _ := binary.Varint(vb[:m])
		return []any{b, binary.LittleEndian.Uint16(b), binary.LittleEndian.Uint32(b[2:]), c, binary.BigEndian.Uint64(c), binary.LittleEndian.Uint64(c), d, e, v, n, sv}
	},
	// 11: binary.Write / Read of scalars, slices, structs, binary.Size
	func(x int64, s string, bs []byte) any {
		var buf bytes.Buffer
		binary.Write(&buf, binary.LittleEndian, uint32(7))
		binary.Write(&buf, binary.LittleEndian, int64(-2))
		binary.Write(&buf, binary.LittleEndian, true)
		binary.Write(&buf, binary.LittleEndian, []byte("xy"))
		binary.Write(&buf, binary.LittleEndian, []uint16{1, 2})
		binary.Write(&buf, binary.BigEndian, uint16(0x0102))
		out := append([]byte(nil), buf.Bytes()...)
		var a uint32
		var b int64
		var c bool
		binary.Read(&buf, binary.LittleEndian, &a)
		binary.Read(&buf, binary.LittleEndian, &b)
		binary.Read(&buf, binary.LittleEndian, &c)
		p := make([]byte, 2)
		binary.Read(&buf, binary.LittleEndian, p)
		q := make([]uint16, 2)
		binary.Read(&buf, binary.LittleEndian, q)
		var be uint16
		binary.Read(&buf, binary.BigEndian, &be)
		return []any{out, a, b, c, p, q, be, binary.Size(uint64(0))}
	},
	// 12: binary.Write / Read of a struct
	func(x int64, s string, bs []byte) any {
		var buf bytes.Buffer
		r := verifRec{A: 5, B: -9, C: true, D: [3]byte{1, 2, 3}}
		e1 := binary.Write(&buf, binary.LittleEndian, r)
		out := append([]byte(nil), buf.Bytes()...)
		var r2 verifRec
		e2 := binary.Read(&buf, binary.LittleEndian, &r2)
		return []any{e1 == nil, e2 == nil, out, r2.A, r2.B, r2.C, r2.D[2], binary.Size(r)}
	},
	// 13: errors
	func(x int64, s string, bs []byte) any {
		base := errors.New("base")
		w := fmt.Errorf("wrap: %w", base)
		w2 := fmt.Errorf("wrap2 %d: %w", 5, w)
		me := &verifMyErr{7}
		w3 := fmt.Errorf("x: %w", me)
		var tgt *verifMyErr
		as := errors.As(w3, &tgt)
		j := errors.Join(base, me)
		return []any{errors.Is(w2, base), errors.Unwrap(w) == base, w2.Error(), as, tgt != nil && tgt.code == 7, errors.Is(j, base), j.Error(), errors.Is(w, io.EOF)}
	},
	// 14: fmt verbs
	func(x int64, s string, bs []byte) any {
		return []any{fmt.Sprintf("%d|%5d|%-5d|%05d|%x|%X|%o|%b|%c|%q|%U", 42, 42, 42, 42, 255, 255, 8, 5, 'A', 'B', 0x1F600),
			fmt.Sprintf("%s|%q|%v|%10s|%-10s|%x", "hi", "hi", "hi", "hi", "hi", "hi"),
			fmt.Sprintf("%t|%v|%p", true, false, nil), fmt.Sprintf("%v|%+v", verifRec{A: 1}, verifRec{A: 1}),
			fmt.Sprintf("%v|%v|%v", []int{1, 2}, map[string]int{"a": 1}, [2]bool{true, false}),
			fmt.Sprintf("%6.2f|%g|%e|%v", 3.14159, 2.5, 1000.0, 1.5),
			fmt.Sprint("a", 1, 2, "b"), fmt.Sprintln("a", 1), fmt.Sprintf("%v %v", nil, errors.New("e")),
			fmt.Sprintf("%3d%%", 50), fmt.Sprintf("%*d", 4, 7), fmt.Sprintf("%[2]d %[1]d", 1, 2)}
	},
	// 15: io helpers
	func(x int64, s string, bs []byte) any {
		r := strings.NewReader("hello world")
		lr := io.LimitReader(r, 5)
		a, _ := io.ReadAll(lr)
		var w1, w2 bytes.Buffer
		mw := io.MultiWriter(&w1, &w2)
		n, _ := io.Copy(mw, strings.NewReader("abc"))
		sr := io.NewSectionReader(strings.NewReader("0123456789"), 2, 4)
		b, _ := io.ReadAll(sr)
		p := make([]byte, 4)
		_, e := io.ReadFull(strings.NewReader("ab"), p)
		tr := io.TeeReader(strings.NewReader("xy"), &w1)
		io.ReadAll(tr)
		k, _ := io.WriteString(&w2, "zz")
		return []any{string(a), n, w1.String(), w2.String(), string(b), e == io.ErrUnexpectedEOF, k}
	},
	// 16: bufio
	func(x int64, s string, bs []byte) any {
		sc := bufio.NewScanner(strings.NewReader("l1\nl2\n\nl4"))
		var lines []string
		for sc.Scan() {
			lines = append(lines, sc.Text())
		}
		var out bytes.Buffer
		bw := bufio.NewWriter(&out)
		bw.WriteString("abc")
		bw.WriteByte('d')
		before := out.Len()
		bw.Flush()
		br := bufio.NewReader(strings.NewReader("one two\nthree"))
		l, _ := br.ReadString('\n')
		pk, _ := br.Peek(2)
		ws := bufio.NewScanner(strings.NewReader("a bb  ccc"))
		ws.Split(bufio.ScanWords)
		var words []string
		for ws.Scan() {
			words = append(words, ws.Text())
		}
		return []any{lines, before, out.String(), l, string(pk), words}
	},
	// 17: unicode / utf8
	func(x int64, s string, bs []byte) any {
		r, sz := utf8.DecodeRuneInString("é!")
		p := make([]byte, 4)
		n := utf8.EncodeRune(p, 'λ')
		lr, lsz := utf8.DecodeLastRuneInString("aλ")
		return []any{unicode.IsSpace('\t'), unicode.IsUpper('A'), unicode.ToUpper('a'), unicode.ToLower('Q'), unicode.IsPunct(';'),
			unicode.IsLetter('é'), unicode.IsDigit('5'), utf8.RuneCountInString("aé"), r, sz, utf8.ValidString("a\xffb"), p[:n], utf8.RuneLen('€'),
			lr, lsz, utf8.Valid([]byte("ok")), []rune("hé"), string([]rune{'h', 'é'}), utf8.RuneError}
	},
	// 18: container/heap, container/list
	func(x int64, s string, bs []byte) any {
		h := &verifIntHeap{5, 2, 8}
		heap.Init(h)
		heap.Push(h, 1)
		a := heap.Pop(h).(int)
		b := heap.Pop(h).(int)
		l := list.New()
		l.PushBack(1)
		l.PushFront(0)
		e := l.PushBack(2)
		l.MoveToFront(e)
		l.Remove(l.Back())
		var out []int
		for el := l.Front(); el != nil; el = el.Next() {
			out = append(out, el.Value.(int))
		}
		return []any{a, b, h.Len(), out, l.Len()}
	},
	// 19: sync primitives without contention
	func(x int64, s string, bs []byte) any {
		var mu sync.Mutex
		var rw sync.RWMutex
		var once sync.Once
		var wg sync.WaitGroup
		cnt := 0
		mu.Lock()
		cnt++
		mu.Unlock()
		rw.RLock()
		rw.RUnlock()
		ok := mu.TryLock()
		if ok {
			mu.Unlock()
		}
		ok2 := rw.TryRLock()
		if ok2 {
			rw.RUnlock()
		}
		for i := 0; i < 3; i++ {
			once.Do(func() { cnt += 10 })
		}
		res := make([]int, 3)
		for i := 0; i < 3; i++ {
			wg.Add(1)
			go func(i int) {
				defer wg.Done()
				res[i] = i * i
			}(i)
		}
		wg.Wait()
		return []any{cnt, ok, ok2, res}
	},
	// 20: sync/atomic typed values
	func(x int64, s string, bs []byte) any {
		var a atomic.Int64
		a.Store(5)
		a.Add(3)
		sw := a.CompareAndSwap(8, 9)
		var b atomic.Bool
		b.Store(true)
		var u atomic.Uint32
		u.Add(2)
		var p atomic.Pointer[verifRec]
		p.Store(&verifRec{A: 3})
		var v atomic.Value
		v.Store("s")
		var raw int32
		atomic.AddInt32(&raw, 4)
		return []any{a.Load(), sw, b.Load(), u.Load(), p.Load().A, v.Load().(string), atomic.LoadInt32(&raw)}
	},
	// 21: sync.Pool, sync.Cond-free patterns, channels with buffer, select default
	func(x int64, s string, bs []byte) any {
		pool := sync.Pool{New: func() any { return new(bytes.Buffer) }}
		b := pool.Get().(*bytes.Buffer)
		b.WriteString("q")
		pool.Put(b)
		ch := make(chan int, 2)
		ch <- 1
		ch <- 2
		full := false
		select {
		case ch <- 3:
		default:
			full = true
		}
		close(ch)
		sum := 0
		for v := range ch {
			sum += v
		}
		_, open := <-ch
		return []any{b.String(), full, sum, open, len(ch), cap(ch)}
	},
	// 22: defer / recover / panics with values, labeled loops, goto, fallthrough, type switch
	func(x int64, s string, bs []byte) (res any) {
		var log []string
		func() {
			defer func() {
				if r := recover(); r != nil {
					log = append(log, fmt.Sprint("recovered ", r))
				}
			}()
			defer func() { log = append(log, "d2") }()
			var m map[string]int
			m["a"] = 1
		}()
		func() {
			defer func() {
				r := recover()
				if e, ok := r.(error); ok {
					log = append(log, "rt:"+strings.SplitN(e.Error(), ":", 2)[0])
				}
			}()
			a := []int{1}
			i := 5
			_ = a[i]
		}()
	outer:
		for i := 0; i < 3; i++ {
			for j := 0; j < 3; j++ {
				if j == 2 {
					continue outer
				}
				if i == 2 {
					break outer
				}
				log = append(log, fmt.Sprint(i, j))
			}
		}
		switch v := any(int8(3)).(type) {
		case int:
			log = append(log, "int")
		case int8:
			log = append(log, "int8", fmt.Sprint(v))
		}
		switch 1 {
		case 1:
			log = append(log, "one")
			fallthrough
		case 2:
			log = append(log, "two")
		default:
			log = append(log, "dflt")
		}
		return log
	},
	// 23: maps (iteration of small maps sorted), struct keys, delete during iteration, copy, append growth, 3-index slices, arrays by value
	func(x int64, s string, bs []byte) any {
		type k struct {
			a int
			b string
		}
		m := map[k]int{{1, "a"}: 1, {2, "b"}: 2}
		m[k{1, "a"}] += 10
		delete(m, k{2, "b"})
		_, ok := m[k{2, "b"}]
		a := []int{1, 2, 3, 4, 5}
		b := a[1:3:3]
		b = append(b, 99)
		c := [3]int{1, 2, 3}
		d := c
		d[0] = 7
		n := copy(a, a[2:])
		var ks []string
		mm := map[string]bool{"z": true, "y": true, "x": false}
		for kk := range mm {
			ks = append(ks, kk)
		}
		sort.Strings(ks)
		return []any{m[k{1, "a"}], ok, len(m), a, b, c, d, n, ks}
	},
	// 24: (range-over-int / range-over-func need go >= 1.22 in go.mod; mkdb declares an older version)
	func(x int64, s string, bs []byte) any { return 0 },
	// 25: symbolic integer through strconv / fmt / arithmetic helpers
	func(x int64, s string, bs []byte) any {
		y := x%1000 + 5
		t := strconv.FormatInt(y, 10)
		z, _ := strconv.ParseInt(t, 10, 64)
		return []any{z == y, len(strconv.Itoa(int(y))) > 0, fmt.Sprintf("%d", y) == t}
	},
	// 26: symbolic string through strings functions
	func(x int64, s string, bs []byte) any {
		u := strings.ToUpper(s)
		return []any{len(u) == len(s), strings.HasPrefix(s+"x", s), strings.Contains(s+"ab", "ab"), strings.EqualFold(s, u),
			strings.Compare(s, s), strings.Index(s+"#", "#") == len(s), len(strings.TrimSpace(s)) <= len(s),
			strings.Repeat(s, 2) == s+s, len(strings.Split(s, ",")) >= 1, len(strings.Fields(s)) <= 2}
	},
	// 27: symbolic bytes through bytes / binary helpers
	func(x int64, s string, bs []byte) any {
		v := binary.LittleEndian.Uint32(append(append([]byte(nil), bs...), 0, 0, 0, 0))
		var buf bytes.Buffer
		buf.Write(bs)
		c := bytes.Compare(bs, bs)
		cp := slices.Clone(bs)
		slices.Sort(cp)
		return []any{v&0xffff == uint32(bs[0])|uint32(bs[1])<<8, bytes.Equal(buf.Bytes(), bs), c, cp[0] <= cp[1], bytes.Contains(append(bs, 'q', 'r'), []byte("qr")),
			bytes.IndexByte(append([]byte{}, bs...), bs[1]) <= 1}
	},
	// 28: reflect.DeepEqual and friends
	func(x int64, s string, bs []byte) any {
		return verifReflectItem()
	},
	// 29: time (only monotone facts)
	func(x int64, s string, bs []byte) any {
		return verifTimeItem()
	},
	// 30: os file helpers
	func(x int64, s string, bs []byte) any {
		return verifOSItem()
	},
}

func verifH_X_std() {
	item := verifParam("item", 0)
	x := verifI64("x")
	s := verifString("s", 2)
	bs := verifBytes("bs", 2)
	if (item >= 25 && item <= 27) || item == 37 {
		// printable ASCII keeps the symbolic string items inside the engine's exact range
		for i := 0; i < 2; i++ {
			verifAssume(s[i] >= 32 && s[i] < 127)
		}
		verifAssume(x >= 0 && x < 100000)
	}
	r := verifStdItems[item](x, s, bs)
	verifObserve("result", fmt.Sprintf("%v", r))
	verifReach("X_std/end")
}
