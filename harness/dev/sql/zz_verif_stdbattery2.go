//go:build verif

package sql

import (
	"bufio"
	"bytes"
	"fmt"
	"io"
	"math"
	"os"
	"path/filepath"
	"reflect"
	"strconv"
	"strings"
	"time"
	"unicode"
	"unicode/utf8"
)

func verifReflectItem() any {
	a := []any{1, "x", []byte{1, 2}, map[string]int{"a": 1}}
	b := []any{1, "x", []byte{1, 2}, map[string]int{"a": 1}}
	type t struct {
		A int
		B []string
	}
	return []any{reflect.DeepEqual(a, b), reflect.DeepEqual(t{1, []string{"q"}}, t{1, []string{"q"}}), reflect.DeepEqual(t{1, nil}, t{2, nil}),
		reflect.TypeOf(int32(1)).Kind() == reflect.Int32, reflect.TypeOf("s").String(), reflect.ValueOf([]int{1, 2}).Len(),
		reflect.ValueOf(int64(5)).Int(), reflect.TypeOf(t{}).NumField(), reflect.ValueOf(any(nil)).IsValid()}
}

func verifTimeItem() any {
	t0 := time.Now()
	d := time.Since(t0)
	t1 := t0.Add(3 * time.Second)
	dd := 1500 * time.Millisecond
	tm := time.NewTimer(time.Hour)
	stopped := tm.Stop()
	return []any{d >= 0, t1.After(t0), t1.Sub(t0) == 3*time.Second, dd.Seconds(), dd.String(), time.Duration(90) * time.Second, stopped,
		t0.Before(t1), !t0.IsZero(), t1.Unix()-t0.Unix() >= 2}
}

func verifOSItem() any {
	dir := "verif_std_os"
	os.RemoveAll(dir)
	e0 := os.MkdirAll(filepath.Join(dir, "sub"), 0o755)
	p := filepath.Join(dir, "f.txt")
	e1 := os.WriteFile(p, []byte("hello"), 0o644)
	b, e2 := os.ReadFile(p)
	f, e3 := os.OpenFile(p, os.O_RDWR|os.O_APPEND, 0o644)
	f.Write([]byte(" world"))
	st, _ := f.Stat()
	sz := st.Size()
	f.Close()
	e4 := os.Rename(p, filepath.Join(dir, "g.txt"))
	_, e5 := os.Stat(p)
	g, _ := os.Create(filepath.Join(dir, "h.bin"))
	g.WriteAt([]byte{1, 2, 3}, 4)
	g.Truncate(6)
	g.Seek(0, 0)
	all := make([]byte, 10)
	n, _ := g.Read(all)
	g.Sync()
	g.Close()
	es, _ := os.ReadDir(dir)
	var names []string
	for _, e := range es {
		names = append(names, e.Name())
	}
	e6 := os.Remove(filepath.Join(dir, "h.bin"))
	st2, _ := os.Stat(filepath.Join(dir, "g.txt"))
	e7 := os.Truncate(filepath.Join(dir, "g.txt"), 3)
	b2, _ := os.ReadFile(filepath.Join(dir, "g.txt"))
	os.RemoveAll(dir)
	_, e8 := os.Stat(dir)
	return []any{e0 == nil, e1 == nil, string(b), e2 == nil, e3 == nil, sz, e4 == nil, os.IsNotExist(e5), n, fmt.Sprint(all[:n]), names, e6 == nil, st2.Size(), st2.IsDir(),
		e7 == nil, string(b2), os.IsNotExist(e8), filepath.Base("/a/b.c"), filepath.Dir("/a/b.c"), filepath.Ext("x.go")}
}

// further items, appended to the table at init time
func init() {
	verifStdItems = append(verifStdItems,
		// 31: bufio.Reader Peek/Discard/ReadByte/UnreadByte over a refill boundary, bytes.Buffer.Next aliasing
		func(x int64, s string, bs []byte) any {
			src := make([]byte, 5000)
			for i := range src {
				src[i] = byte(i % 251)
			}
			br := bufio.NewReaderSize(bytes.NewReader(src), 16)
			a, _ := br.Peek(4)
			a0 := append([]byte(nil), a...)
			br.Discard(10)
			b, _ := br.Peek(8)
			b0 := append([]byte(nil), b...)
			c, _ := br.ReadByte()
			br.UnreadByte()
			rest, _ := io.ReadAll(br)
			buf := bytes.NewBuffer([]byte{1, 2, 3, 4, 5, 6})
			n1 := buf.Next(2)
			n2 := buf.Next(2)
			n1[0] = 9
			return []any{a0, b0, c, len(rest), rest[0], n1, n2, buf.Len(), br.Buffered()}
		},
		// 32: unicode case mapping of non-ASCII, utf8 encode into a fixed array, strings.ToValidUTF8, strings.Title-like loops
		func(x int64, s string, bs []byte) any {
			var buf [8]byte
			n := 0
			for _, r := range "aɐé" {
				n += utf8.EncodeRune(buf[n:], unicode.ToUpper(r))
			}
			return []any{buf[:n], strings.ToUpper("ɐɐ"), strings.ToValidUTF8("a\xffb", "?"), strings.ToTitle("ǆ"), unicode.SimpleFold('A'), strings.EqualFold("ſ", "S")}
		},
		// 33: closures capturing loop variables, method values, method expressions, interface embedding, struct embedding
		func(x int64, s string, bs []byte) any {
			var fs []func() int
			for i := 0; i < 3; i++ {
				i := i
				fs = append(fs, func() int { return i * i })
			}
			h := &verifIntHeap{3, 1}
			lenFn := h.Len
			lessFn := verifIntHeap.Less
			type inner struct{ a, b int }
			type outer struct {
				inner
				c int
			}
			o := outer{inner{1, 2}, 3}
			var st fmt.Stringer = verifStringer(5)
			return []any{fs[0](), fs[1](), fs[2](), lenFn(), lessFn(*h, 0, 1), o.a + o.b + o.c, st.String()}
		},
		// 34: integer edge arithmetic as Go defines it
		func(x int64, s string, bs []byte) any {
			a := int32(math.MaxInt32)
			a++
			b := uint8(200)
			b += 100
			c := -7 / 2
			d := -7 % 2
			e := int64(math.MinInt64)
			f := e / -1
			var sh uint = 70
			g := uint64(1) << sh
			h := int8(-128) >> 9
			kk := uint16(0xffff)
			k := kk * kk
			m1 := int32(-1)
			return []any{a, b, c, d, f, g, h, k, int8(x), uint32(m1), int64(float64(1 << 62)), ^uint8(5), 7 &^ 5}
		},
		// 35: strings.Builder growth + Fprintf into it, strings.Fields on tabs, strconv.Quote round trip
		func(x int64, s string, bs []byte) any {
			var sb strings.Builder
			for i := 0; i < 40; i++ {
				fmt.Fprintf(&sb, "%d,", i)
			}
			q := strconv.Quote("tab\there")
			u, _ := strconv.Unquote(q)
			return []any{sb.Len(), sb.String()[:12], strings.Fields("a\tb\n c"), q, u, strings.LastIndexByte("a/b/c", '/'), strings.IndexAny("hello", "lo"), strings.SplitAfter("a,b", ",")}
		},
		// 36: arbitrary (also non-ASCII, also invalid) symbolic bytes through range, []rune and utf8 helpers
		func(x int64, s string, bs []byte) any {
			cnt := 0
			last := rune(0)
			for _, r := range s {
				cnt++
				last = r
			}
			rs := []rune(s)
			return []any{cnt, last, len(rs), utf8.ValidString(s), len(string(rs))}
		},
		// 37: fmt.Sprint with several symbolic operands (a blank between two operands when neither is a string)
		func(x int64, s string, bs []byte) any {
			a, b := x%10, x%7
			return []any{fmt.Sprint(a, b) == fmt.Sprintf("%d %d", a, b), fmt.Sprint(a, s, b) == fmt.Sprintf("%d%s%d", a, s, b), len(fmt.Sprint(a, b)) == 3}
		},
	)
}

type verifStringer int

func (v verifStringer) String() string { return "S" + strconv.Itoa(int(v)) }
