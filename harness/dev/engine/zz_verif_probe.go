//go:build verif

package engine

import (
	"fmt"

	"github.com/mk6i/mkdb/storage"
)

func init() { verifRegister("X_lastkey", verifH_X_lastkey) }

// engine-development probe: row-id counter after each prefix scenario
func verifH_X_lastkey() {
	rs, db := verifPrefixDB(verifParam("prefix", 0), 0, false)
	n := 0
	for _, t := range db.tables {
		n += len(t.rows)
	}
	verifObserve("lastkey", fmt.Sprint(storage.VerifLastKey(rs), " rows ", n))
	verifTag("lastkey", fmt.Sprint(storage.VerifLastKey(rs)))
	verifAssert(false, "show")
}
