//go:build verif

package engine

import (
	"fmt"

	"github.com/mk6i/mkdb/storage"
)

func init() {
	verifRegister("C04_ddl", verifH_C04_ddl)
}

// H04-ddl: CREATE TABLE's own flush is interrupted, for catalogs of different
// sizes: no table yet or one table p of `precols` columns (so that the new
// table's `newcols` catalog rows land before, on and after the split of the
// catalog's root leaf at its 9th row), everything flushed completely before.
// The crash falls before any one page write or before the header write, the
// set of pages written before ranging over all subsets the loop can produce.
// CREATE TABLE had not returned, so the new table may or may not exist
// afterwards; the tables that existed must be intact and the database must keep
// working: another CREATE TABLE, an INSERT, a SELECT, a restart.
func verifH_C04_ddl() {
	pre := verifParam("precols", 0)
	k := verifParam("newcols", 4)
	rs := verifNewDB(0)
	db := &verifDB{name: "db"}
	if pre > 0 {
		cols := verifStdCols[:pre]
		verifAssert(EvaluateCreateTable(verifCreateStmt("p", cols), rs) == nil, "prefix-statement-ok")
		pt := &verifTable{name: "p", cols: cols}
		db.tables = append(db.tables, pt)
		var rows [][]interface{}
		for i := 0; i < 2; i++ {
			rows = append(rows, verifConcreteRow(i)[:pre])
		}
		_, err := EvaluateInsert(verifInsertStmt("p", nil, rows), rs)
		verifAssert(err == nil, "prefix-statement-ok")
		pt.rows = rows
	}
	verifAssert(storage.VerifFlush(rs) == nil, "prefix-flush")
	verifTag("catalog", fmt.Sprintf("precols=%d,newcols=%d", pre, k))

	verifMapOrderChoice(storage.VerifDirtyCacheEntry)
	crashed, at := verifRunWithCrash(verifIsPageEvent, func() {
		EvaluateCreateTable(verifCreateStmt("newt", verifStdCols[:k]), rs)
	})
	verifMapOrderChoice(nil)
	if !crashed {
		verifReach("flush-completed")
		return
	}
	verifTag("at", at)
	storage.VerifAbandon(rs)
	err := storage.InitStorage()
	verifAssert(err == nil, "recovery-ok")
	if err != nil {
		return
	}
	rs2 := verifOpenDB(0)
	for _, t := range db.tables {
		verifCheckTable(rs2, t, "rec/")
	}
	// the database keeps working
	verifAssert(EvaluateCreateTable(verifCreateStmt("z", verifStdCols), rs2) == nil, "cont/create-ok")
	zt := &verifTable{name: "z", cols: verifStdCols}
	more := verifGenInsert(zt, 1, "m", 1, false)
	verifAssert(more.run(rs2) == nil, "cont/statement-ok")
	zt.rows = nil
	tmp := &verifDB{name: "db", tables: []*verifTable{zt}}
	more.apply(tmp)
	verifCheckTable(rs2, zt, "cont/")
	for _, t := range db.tables {
		verifCheckTable(rs2, t, "cont/")
	}
	rs3 := verifRecover(rs2, "cont2/")
	if rs3 != nil {
		verifCheckTable(rs3, zt, "cont2/")
		for _, t := range db.tables {
			verifCheckTable(rs3, t, "cont2/")
		}
	}
	verifReach("end")
}
