//go:build verif

package engine

import (
	"fmt"
	"sort"

	"github.com/mk6i/mkdb/sql"
	"github.com/mk6i/mkdb/storage"
)

func init() {
	verifRegister("C17_dbs", verifH_C17_dbs)
}

type verifDBModel struct {
	hasT bool
	rows []int64
}

// verifSessionRows reads table t of the session's current database.
func verifSessionRows(sess *Session) ([]*storage.Row, error) {
	rows, _, err := EvaluateSelect(sql.Select{
		SelectList:      sql.SelectList{{ValueExpressionPrimary: sql.Asterisk{}}},
		TableExpression: sql.TableExpression{FromClause: sql.FromClause{sql.TableName{Name: "t"}}},
	}, sess.RelationService)
	return rows, err
}

func verifCheckCurrent(sess *Session, cur string, dbs map[string]*verifDBModel, tag string) {
	if cur == "" {
		return
	}
	m := dbs[cur]
	rows, err := verifSessionRows(sess)
	if !m.hasT {
		verifAssert(err != nil, tag+"no-table-yet")
		return
	}
	verifAssert(err == nil, tag+"select-ok")
	if err != nil {
		return
	}
	verifAssert(len(rows) == len(m.rows), tag+"row-count")
	for i := range rows {
		if i < len(m.rows) {
			v, ok := rows[i].Vals[0].(int64)
			verifAssert(ok && v == m.rows[i], tag+"row-value")
			if i > 0 {
				verifAssert(rows[i].RowID > rows[i-1].RowID, tag+"row-ids-increasing")
			}
		}
	}
}

// verifScriptKind16: like verifScriptKind with base-16 digits (kinds up to 14).
func verifScriptKind16(script, n, i int) int {
	for j := n - 1; j > i; j-- {
		script /= 16
	}
	d := script % 16
	if d == 0 {
		return -1
	}
	return d - 1
}

// H17: sequences over CREATE DATABASE a|b, USE a|b|nosuch, SHOW DATABASES,
// CREATE TABLE, INSERT, timer ticks of any live store, and restarts (clean
// shutdown or crash, then InitStorage and a new session). Each database must
// hold exactly what was written while it was selected.
func verifH_C17_dbs() {
	steps := verifParam("steps", 3)
	kinds := verifParam("kinds", 9)
	script := verifParam("script", 0)
	verifFSReset()
	verifAssert(storage.InitStorage() == nil, "init")
	sess := &Session{}
	dbs := map[string]*verifDBModel{}
	cur := ""
	hist := ""
	for i := 0; i < steps; i++ {
		k := verifScriptKind(script, steps, i)
		if xs := verifParam("xscript", 0); xs != 0 {
			// base-16 script: digit d (1..15) = step kind d-1, 0 = free step
			k = verifScriptKind16(xs, steps, i)
		}
		if i == verifParam("bulkat", -1) {
			k = 9
		}
		if k < 0 {
			if mask := verifParam("kmask", 0); mask != 0 {
				// free step among the kinds whose bit is set in kmask
				var avail []int
				for b := 0; b < 16; b++ {
					if mask&(1<<b) != 0 {
						avail = append(avail, b)
					}
				}
				k = avail[verifChoice("step", len(avail))]
			} else {
				k = verifChoice("step", kinds)
			}
		}
		if k == 9 && verifParam("nobulk", 0) == 1 {
			verifAssume(false)
		}
		hist += fmt.Sprintf("%d,", k)
		verifTag("steps", hist)
		switch k {
		case 0, 1: // CREATE DATABASE a | b
			name := []string{"a", "b"}[k]
			err := sess.ExecQuery("CREATE DATABASE " + name)
			if _, exists := dbs[name]; exists {
				verifAssert(err != nil, "create-existing-db-is-an-error")
			} else {
				verifAssert(err == nil, "create-db-ok")
				dbs[name] = &verifDBModel{}
			}
		case 2, 3: // USE a | b (database names are case-insensitive: with upper=1 the spelling is a choice)
			name := []string{"a", "b"}[k-2]
			spelled := name
			if verifParam("upper", 0) == 1 && verifChoice("spelling", 2) == 1 {
				spelled = []string{"A", "B"}[k-2]
			}
			err := sess.ExecQuery("USE " + spelled)
			if _, exists := dbs[name]; exists {
				verifAssert(err == nil, "use-ok")
				cur = name
			} else {
				verifAssert(err != nil, "use-missing-is-an-error")
			}
		case 4: // USE of a database that does not exist changes nothing
			verifAssert(sess.ExecQuery("USE nosuch") != nil, "use-missing-is-an-error")
		case 5: // CREATE TABLE t
			err := sess.ExecQuery("CREATE TABLE t (a INT)")
			switch {
			case cur == "":
				verifAssert(err != nil, "ddl-needs-a-database")
			case dbs[cur].hasT:
				verifAssert(err != nil, "create-existing-table-is-an-error")
			default:
				verifAssert(err == nil, "create-table-ok")
				dbs[cur].hasT = true
			}
		case 6: // INSERT one row with a symbolic digit
			d := verifU8("digit")
			verifAssume(verifAnd(d >= '0', d <= '9'))
			err := sess.ExecQuery("INSERT INTO t VALUES (" + string([]byte{d}) + ")")
			switch {
			case cur == "" || !dbs[cur].hasT:
				verifAssert(err != nil, "insert-needs-database-and-table")
			default:
				verifAssert(err == nil, "insert-ok")
				dbs[cur].rows = append(dbs[cur].rows, int64(d-'0'))
			}
		case 9: // INSERT of nine rows at once: a fresh table's root leaf splits and its root moves
			err := sess.ExecQuery("INSERT INTO t VALUES (1), (2), (3), (4), (5), (6), (7), (8), (9)")
			switch {
			case cur == "" || !dbs[cur].hasT:
				verifAssert(err != nil, "insert-needs-database-and-table")
			default:
				verifAssert(err == nil, "insert-ok")
				for v := int64(1); v <= 9; v++ {
					dbs[cur].rows = append(dbs[cur].rows, v)
				}
			}
		case 10: // UPDATE of every row to a symbolic digit (one log record per row)
			d := verifU8("upd-digit")
			verifAssume(verifAnd(d >= '0', d <= '9'))
			err := sess.ExecQuery("UPDATE t SET a = " + string([]byte{d}))
			switch {
			case cur == "" || !dbs[cur].hasT:
				verifAssert(err != nil, "insert-needs-database-and-table")
			default:
				verifAssert(err == nil, "update-ok")
				for j := range dbs[cur].rows {
					dbs[cur].rows[j] = int64(d - '0')
				}
			}
		case 11: // DELETE of the rows holding a symbolic digit
			d := verifU8("del-digit")
			verifAssume(verifAnd(d >= '0', d <= '9'))
			err := sess.ExecQuery("DELETE FROM t WHERE a = " + string([]byte{d}))
			switch {
			case cur == "" || !dbs[cur].hasT:
				verifAssert(err != nil, "insert-needs-database-and-table")
			default:
				verifAssert(err == nil, "delete-ok")
				var keep []int64
				for _, v := range dbs[cur].rows {
					if v != int64(d-'0') {
						keep = append(keep, v)
					}
				}
				dbs[cur].rows = keep
			}
		case 7: // a pause: the flush timer of some live store fires
			n := verifNumTickers()
			if n == 0 {
				verifAssume(false)
			}
			verifTick(verifChoice("ticker", n))
		case 8: // restart: clean shutdown or crash, then start-up and a fresh session
			if verifChoice("crash", 2) == 0 {
				verifAssert(sess.Close() == nil, "close-ok")
			}
			verifAssert(storage.InitStorage() == nil, "init-after-restart")
			sess = &Session{}
			cur = ""
		}
		verifCheckCurrent(sess, cur, dbs, "step/")
	}
	// SHOW DATABASES lists exactly the created names
	rows, _, err := storage.ShowDB()
	verifAssert(err == nil, "show-ok")
	var names []string
	for n := range dbs {
		names = append(names, n)
	}
	sort.Strings(names)
	verifAssert(len(rows) == len(names), "show-count")
	for i := range rows {
		if i < len(names) {
			verifAssert(rows[i].Vals[0] == any(names[i]), "show-name")
		}
	}
	// every database, selected again, holds exactly its own tables and rows and accepts new ones
	for _, n := range names {
		verifAssert(sess.ExecQuery("USE "+n) == nil, "final/use-ok")
		verifCheckCurrent(sess, n, dbs, "final/")
		if dbs[n].hasT {
			for extra := int64(70); extra < 76; extra++ {
				verifAssert(sess.ExecQuery(fmt.Sprintf("INSERT INTO t VALUES (%d)", extra)) == nil, "final/insert-ok")
				dbs[n].rows = append(dbs[n].rows, extra)
			}
			verifCheckCurrent(sess, n, dbs, "final2/")
		}
	}
	sess.Close()
	verifReach("end")
}
