//go:build verif

package engine

import (
	"fmt"
	"strings"

	"github.com/mk6i/mkdb/sql"
	"github.com/mk6i/mkdb/storage"
)

func init() {
	verifRegister("C05_select", verifH_C05_select)
	verifRegister("C05_text", verifH_C05_text)
}

// ---------------------------------------------------------------- stub relation manager




// ---------------------------------------------------------------- reference meaning


// a reference predicate: operands are column indexes (>=0) or literals
type verifPred struct {
	lcol, rcol int // -1: literal
	llit, rlit interface{}
	op         sql.TokenType
}

func (p verifPred) eval(row []interface{}) bool {
	l, r := p.llit, p.rlit
	if p.lcol >= 0 {
		l = row[p.lcol]
	}
	if p.rcol >= 0 {
		r = row[p.rcol]
	}
	return verifCmpVals(p.op, l, r)
}

func (p verifPred) ast(cols []string) sql.Predicate {
	var l, r interface{} = p.llit, p.rlit
	if p.lcol >= 0 {
		l = sql.ColumnReference{ColumnName: cols[p.lcol]}
	}
	if p.rcol >= 0 {
		r = sql.ColumnReference{ColumnName: cols[p.rcol]}
	}
	return sql.Predicate{ComparisonPredicate: sql.ComparisonPredicate{LHS: l, CompOp: p.op, RHS: r}}
}



// verifGenPred: one well-typed predicate over table t(a int, b bigint, s varchar, f boolean).
// form: 0 a op int   1 int op b   2 a op b   3 s op 'x'   4 f =/!= bool   5 'x' op s
func verifGenPred(tag string, form int, symOp bool) verifPred {
	p := verifPred{lcol: -1, rcol: -1}
	ops := verifAllOps
	if form == 4 {
		ops = ops[:2]
	}
	if symOp {
		p.op = sql.TokenType(verifIntFrom(tag+"op", ops))
	} else {
		n := verifParam("concops", len(ops))
		if n > len(ops) {
			n = len(ops)
		}
		p.op = sql.TokenType(ops[verifChoice(tag+"op", n)])
	}
	switch form {
	case 0:
		p.lcol, p.rlit = 0, int64(verifI32(tag+"lit"))
	case 1:
		p.llit, p.rcol = verifI64(tag+"lit"), 1
	case 2:
		p.lcol, p.rcol = 0, 1
	case 3:
		p.lcol, p.rlit = 2, verifString(tag+"lit", 1)
	case 4:
		p.lcol, p.rlit = 3, verifBool(tag+"lit")
	default:
		p.llit, p.rcol = verifString(tag+"lit", 1), 2
	}
	return p
}

// condition trees: OR of AND-groups
var verifC05Shapes = [][]int{{1}, {2}, {1, 1}, {2, 1}, {1, 2}, {3}, {1, 1, 1}}

type verifCond struct {
	groups [][]verifPred
}

func (c verifCond) eval(row []interface{}) bool {
	any := false
	for _, g := range c.groups {
		all := true
		for _, p := range g {
			all = verifAnd(all, p.eval(row))
		}
		any = verifOr(any, all)
	}
	return any
}

func (c verifCond) ast(cols []string) interface{} {
	var orChain func(gs [][]verifPred) interface{}
	andChain := func(ps []verifPred) interface{} {
		var rec func(i int) interface{}
		rec = func(i int) interface{} {
			if i == len(ps)-1 {
				return ps[i].ast(cols)
			}
			return sql.BooleanTerm{LHS: ps[i].ast(cols), RHS: rec(i + 1)}
		}
		return rec(0)
	}
	orChain = func(gs [][]verifPred) interface{} {
		if len(gs) == 1 {
			return andChain(gs[0])
		}
		return sql.SearchCondition{LHS: andChain(gs[0]), RHS: orChain(gs[1:])}
	}
	return orChain(c.groups)
}

func verifGenCond(tag string, shape []int, symOpAt int) verifCond {
	c := verifCond{}
	k := 0
	base := verifChoice(tag+"forms", 6)
	for gi, n := range shape {
		var g []verifPred
		for i := 0; i < n; i++ {
			g = append(g, verifGenPred(fmt.Sprintf("%sg%dp%d", tag, gi, i), (base+k)%6, k == symOpAt))
			k++
		}
		c.groups = append(c.groups, g)
	}
	return c
}

// select-list forms over columns a,b,s,f (index, alias); -1 = expression a = <lit>
type verifSelItem struct {
	col   int
	alias string
}

var verifSelForms = [][]verifSelItem{
	nil, // SELECT *
	{{0, ""}, {1, ""}, {2, ""}, {3, ""}},
	{{2, ""}, {0, ""}},
	{{1, "bee"}, {0, ""}, {3, "eff"}},
	{{0, "x"}, {0, "y"}},
	{{-1, ""}, {0, ""}},
	{{3, ""}},
}



// H05: R symbolic rows of t(a,b,s,f); WHERE tree, select list, ORDER BY, LIMIT/OFFSET;
// result compared with the reference meaning.
func verifH_C05_select() {
	R := verifParam("rows", 2)
	shapeIdx := verifParam("where", 0) // 0 = none, k = verifC05Shapes[k-1]
	selForm := verifParam("sel", 0)
	nkeys := verifParam("order", 0)
	limoff := verifParam("limoff", 0)

	tbl := &verifStubTable{cols: verifC05Cols}
	for i := 0; i < R; i++ {
		tbl.rows = append(tbl.rows, []interface{}{int64(verifI32("a")), verifI64("b"), verifString("s", 1), verifBool("f")})
	}
	rm := &verifRM{tables: map[string]*verifStubTable{"t": tbl}}

	q := sql.Select{TableExpression: sql.TableExpression{FromClause: sql.FromClause{sql.TableName{Name: "t"}}}}
	// WHERE
	var cond *verifCond
	if shapeIdx > 0 {
		shape := verifC05Shapes[shapeIdx-1]
		np := 0
		for _, n := range shape {
			np += n
		}
		c := verifGenCond("w", shape, verifChoice("symop-at", np))
		cond = &c
		q.WhereClause = sql.WhereClause{SearchCondition: c.ast(verifC05Cols)}
	}
	// select list
	var items []verifSelItem
	if selForm == 99 {
		// a select list of nsel items, each chosen from a menu: the four columns and
		// three comparison expressions over the integer columns (a = lit, b < lit, lit <= a)
		menu := []verifSelItem{{0, ""}, {1, ""}, {2, ""}, {3, ""}, {-1, ""}, {-2, ""}, {-3, ""}}
		for k := 0; k < verifParam("nsel", 2); k++ {
			items = append(items, menu[verifChoice("selitem", len(menu))])
		}
	} else {
		items = verifSelForms[selForm]
	}
	var exprLit int64
	exprLits := map[int]int64{} // literal of the expression item at each select position
	if items == nil {
		q.SelectList = sql.SelectList{{ValueExpressionPrimary: sql.Asterisk{}}}
	} else {
		for pos, it := range items {
			dc := sql.DerivedColumn{AsClause: it.alias}
			if it.col < 0 {
				exprLit = int64(verifI32("exprlit"))
				exprLits[pos] = exprLit
				switch it.col {
				case -2:
					dc.ValueExpressionPrimary = sql.Predicate{ComparisonPredicate: sql.ComparisonPredicate{
						LHS: sql.ColumnReference{ColumnName: "b"}, CompOp: sql.LT, RHS: exprLit}}
				case -3:
					dc.ValueExpressionPrimary = sql.Predicate{ComparisonPredicate: sql.ComparisonPredicate{
						LHS: exprLit, CompOp: sql.LTE, RHS: sql.ColumnReference{ColumnName: "a"}}}
				default:
					dc.ValueExpressionPrimary = sql.Predicate{ComparisonPredicate: sql.ComparisonPredicate{
						LHS: sql.ColumnReference{ColumnName: "a"}, CompOp: sql.EQ, RHS: exprLit}}
				}
			} else {
				dc.ValueExpressionPrimary = sql.ColumnReference{ColumnName: verifC05Cols[it.col]}
			}
			q.SelectList = append(q.SelectList, dc)
		}
	}
	// reference projection header + function
	var wantHdr []string
	project := func(row []interface{}) []interface{} {
		if items == nil {
			return row
		}
		var out []interface{}
		for pos, it := range items {
			exprLit := exprLits[pos]
			if it.col < 0 {
				switch it.col {
				case -2:
					out = append(out, row[1].(int64) < exprLit)
				case -3:
					out = append(out, exprLit <= row[0].(int64))
				default:
					out = append(out, row[0].(int64) == exprLit)
				}
			} else {
				out = append(out, row[it.col])
			}
		}
		return out
	}
	if items == nil {
		wantHdr = verifC05Cols
	} else {
		for _, it := range items {
			switch {
			case it.alias != "":
				wantHdr = append(wantHdr, it.alias)
			case it.col < 0:
				wantHdr = append(wantHdr, "?")
			default:
				wantHdr = append(wantHdr, verifC05Cols[it.col])
			}
		}
	}
	// ORDER BY keys: result columns that are plain (non-aliased-duplicate) columns
	var keys []int
	var desc []bool
	if nkeys > 0 {
		verifAssume(selForm != 4 && selForm != 5 && selForm != 99) // duplicate / expression columns are not sort keys here
		for k := 0; k < nkeys; k++ {
			pos := verifChoice(fmt.Sprintf("key%d", k), len(wantHdr))
			for _, o := range keys {
				verifAssume(o != pos)
			}
			d := verifChoice(fmt.Sprintf("desc%d", k), 2) == 1
			keys = append(keys, pos)
			desc = append(desc, d)
			tt := sql.ASC
			if d {
				tt = sql.DESC
			}
			q.SortSpecificationList = append(q.SortSpecificationList, sql.SortSpecification{
				SortKey: sql.ColumnReference{ColumnName: wantHdr[pos]}, OrderingSpecification: sql.Token{Type: sql.TokenType(tt)}})
		}
	}
	// LIMIT / OFFSET
	lim, off := -1, -1
	if limoff&4 != 0 {
		// any non-negative 64-bit LIMIT / OFFSET (what the parser can produce)
		l, o := verifI64("biglimit"), verifI64("bigoffset")
		verifAssume(verifAnd(l >= 0, o >= 0))
		if limoff&1 != 0 {
			q.LimitActive, q.Limit = true, int(l)
			lim = R + 1 // reference: clamp to the table size (forks on the symbolic value)
			for k := 0; k <= R; k++ {
				if l == int64(k) {
					lim = k
				}
			}
		}
		if limoff&2 != 0 {
			q.OffsetActive, q.Offset = true, int(o)
			off = R + 1
			for k := 0; k <= R; k++ {
				if o == int64(k) {
					off = k
				}
			}
		}
	} else {
		if limoff&1 != 0 {
			lim = verifChoice("limit", R+2)
			q.LimitActive, q.Limit = true, lim
		}
		if limoff&2 != 0 {
			off = verifChoice("offset", R+2)
			q.OffsetActive, q.Offset = true, off
		}
	}

	rows, fields, err := EvaluateSelect(q, rm)
	verifAssert(err == nil, "select-ok")
	if err != nil {
		return
	}
	// header
	verifAssert(len(fields) == len(wantHdr), "header-width")
	for i := range wantHdr {
		if i < len(fields) {
			verifAssert(fields[i].Column == any(wantHdr[i]), "header-name")
		}
	}
	// reference rows: filter, project
	var ref [][]interface{}
	for _, r := range tbl.rows {
		if cond == nil || cond.eval(r) {
			ref = append(ref, project(r))
		}
	}
	// number of rows before offset/limit
	n := len(ref)
	start, end := 0, n
	if off >= 0 {
		start = off
		if start > n {
			start = n
		}
	}
	if lim >= 0 && end-start > lim {
		end = start + lim
	}
	verifAssert(len(rows) == end-start, "row-count")
	if len(rows) != end-start {
		return
	}
	for _, r := range rows {
		verifAssert(len(r.Vals) == len(wantHdr), "row-width")
	}
	if len(keys) == 0 {
		for i := range rows {
			verifCheck(verifRowEq(rows[i].Vals, ref[start+i]), "rows-in-insertion-order")
		}
	} else {
		// sorted under the keys ...
		for i := 0; i+1 < len(rows); i++ {
			verifCheck(verifSortLE(rows[i].Vals, rows[i+1].Vals, keys, desc), "sorted")
		}
		// ... and, before OFFSET/LIMIT cut it, a permutation of the reference. With a cut,
		// every returned row must be a reference row at least as often, and rows left out
		// must not sort strictly before a returned one (checked through counts).
		for _, r := range rows {
			var inResL, inRefL []bool
			for _, o := range rows {
				inResL = append(inResL, verifRowEq(o.Vals, r.Vals))
			}
			for _, o := range ref {
				inRefL = append(inRefL, verifRowEq(o, r.Vals))
			}
			inRes, inRef := verifCount(inResL), verifCount(inRefL)
			if start == 0 && end == n {
				verifCheck(inRes == inRef, "permutation-of-reference")
			} else {
				verifCheck(inRes <= inRef, "subset-of-reference")
			}
		}
		if start != 0 || end != n {
			// position check: a returned row at result index i has exactly start+i rows
			// before-or-tied... ties make this inexact, so require only the bounds:
			// #ref rows strictly before it <= start+i and #ref rows at-or-before it >= start+i+1
			for i, r := range rows {
				before, atOrBefore := 0, 0
				for _, o := range ref {
					le := verifSortLE(o, r.Vals, keys, desc)
					ge := verifSortLE(r.Vals, o, keys, desc)
					atOrBefore += verifB2I(le)
					before += verifB2I(verifAnd(le, !ge))
				}
				verifCheck(before <= start+i, "offset-limit-window-low")
				verifCheck(atOrBefore >= start+i+1, "offset-limit-window-high")
			}
		}
	}
	verifReach("end")
}

// H05-text: the same kind of query written as SQL text with symbolic literal
// digits, run through the real scanner and parser (precedence end to end).
var verifC05Templates = []string{
	"SELECT * FROM t WHERE a = %d AND b > %d OR a < %d",
	"SELECT * FROM t WHERE a < %d OR b = %d AND a >= %d",
	"SELECT s, a FROM t WHERE a != %d AND b <= %d AND a > %d ORDER BY a DESC",
	"SELECT a, b FROM t WHERE a >= %d OR b < %d OR a = %d ORDER BY b ASC, a DESC LIMIT 2 OFFSET 1",
	"SELECT a x, b FROM t WHERE a <= %d ORDER BY x",
}

func verifH_C05_text() {
	R := verifParam("rows", 2)
	ti := verifParam("template", 0)
	tbl := &verifStubTable{cols: verifC05Cols}
	for i := 0; i < R; i++ {
		tbl.rows = append(tbl.rows, []interface{}{int64(verifI32("a")), verifI64("b"), verifString("s", 1), verifBool("f")})
	}
	var rm RelationManager = &verifRM{tables: map[string]*verifStubTable{"t": tbl}}
	if verifParam("real", 0) == 1 {
		// the same rows in a real database: stored through the executor, flushed,
		// and read back from a cold store (real Fetch, page decoding, row decoding)
		rs := verifNewDB(0)
		verifAssert(EvaluateCreateTable(verifCreateStmt("t", verifStdCols), rs) == nil, "create")
		_, ierr := EvaluateInsert(verifInsertStmt("t", nil, tbl.rows), rs)
		verifAssert(ierr == nil, "insert-ok")
		verifAssert(storage.VerifFlush(rs) == nil, "flush-ok")
		storage.VerifAbandon(rs)
		rm = verifOpenDB(0)
	}
	// literals: one symbolic decimal digit each
	var lits [3]int64
	text := verifC05Templates[ti]
	for i := 0; i < 3; i++ {
		at := strings.Index(text, "%d")
		if at < 0 {
			break
		}
		// digits=k: the literal has k decimal digits, each symbolic (so leading zeros occur)
		nd := verifParam("digits", 1)
		var ds []byte
		lits[i] = 0
		for k := 0; k < nd; k++ {
			d := verifU8(fmt.Sprintf("digit%d_%d", i, k))
			verifAssume(verifAnd(d >= '0', d <= '9'))
			lits[i] = lits[i]*10 + int64(d-'0')
			ds = append(ds, d)
		}
		text = text[:at] + string(ds) + text[at+2:]
	}
	stmt, err := parseSQL(text)
	verifAssert(err == nil, "parses")
	if err != nil {
		return
	}
	sel, ok := stmt.(sql.Select)
	verifAssert(ok, "is-select")
	rows, fields, err := EvaluateSelect(sel, rm)
	verifAssert(err == nil, "select-ok")
	if err != nil {
		return
	}
	av := func(r []interface{}) int64 { return r[0].(int64) }
	bv := func(r []interface{}) int64 { return r[1].(int64) }
	var keep func(r []interface{}) bool
	switch ti {
	case 0:
		keep = func(r []interface{}) bool {
			return verifOr(verifAnd(av(r) == lits[0], bv(r) > lits[1]), av(r) < lits[2])
		}
	case 1:
		keep = func(r []interface{}) bool {
			return verifOr(av(r) < lits[0], verifAnd(bv(r) == lits[1], av(r) >= lits[2]))
		}
	case 2:
		keep = func(r []interface{}) bool {
			return verifAnd(av(r) != lits[0], verifAnd(bv(r) <= lits[1], av(r) > lits[2]))
		}
	case 3:
		keep = func(r []interface{}) bool {
			return verifOr(av(r) >= lits[0], verifOr(bv(r) < lits[1], av(r) == lits[2]))
		}
	default:
		keep = func(r []interface{}) bool { return av(r) <= lits[0] }
	}
	nkeep := 0
	for _, r := range tbl.rows {
		nkeep += verifB2I(keep(r))
	}
	switch ti {
	case 0, 1:
		verifAssert(len(fields) == 4, "header-width")
		verifCheck(len(rows) == nkeep, "row-count")
		// rows come back in insertion order: the i-th result is the i-th kept row
		k := 0
		for _, r := range tbl.rows {
			if keep(r) {
				if k < len(rows) {
					verifCheck(verifRowEq(rows[k].Vals, r), "rows-in-insertion-order")
				}
				k++
			}
		}
	case 2:
		verifAssert(len(fields) == 2 && fields[0].Column == any("s") && fields[1].Column == any("a"), "header")
		verifCheck(len(rows) == nkeep, "row-count")
		for i := 0; i+1 < len(rows); i++ {
			verifCheck(rows[i].Vals[1].(int64) >= rows[i+1].Vals[1].(int64), "sorted")
		}
	case 3:
		verifAssert(len(fields) == 2, "header")
		want := nkeep - 1
		if want < 0 {
			want = 0
		}
		if want > 2 {
			want = 2
		}
		verifCheck(len(rows) == want, "row-count")
		for i := 0; i+1 < len(rows); i++ {
			b0, b1 := rows[i].Vals[1].(int64), rows[i+1].Vals[1].(int64)
			a0, a1 := rows[i].Vals[0].(int64), rows[i+1].Vals[0].(int64)
			verifCheck(verifOr(b0 < b1, verifAnd(b0 == b1, a0 >= a1)), "sorted")
		}
	default:
		verifAssert(len(fields) == 2 && fields[0].Column == any("x"), "header")
		verifCheck(len(rows) == nkeep, "row-count")
		for i := 0; i+1 < len(rows); i++ {
			verifCheck(rows[i].Vals[0].(int64) <= rows[i+1].Vals[0].(int64), "sorted")
		}
	}
	verifReach("end")
}
