//go:build verif

package engine

import (
	"fmt"
	"math"

	"github.com/mk6i/mkdb/sql"
	"github.com/mk6i/mkdb/storage"
)

func init() {
	verifRegister("C08_disk", verifH_C08_disk)
	verifRegister("C08_text", verifH_C08_text)
}


// H08-disk: values supplied as direct statement values - any int32 / int64 /
// bool, NULLs, strings of 0-3 arbitrary bytes (all 256 byte values) - are read
// back bit for bit from the cache, after flush + cold reload (evict/reload),
// and after a crash + recovery; an UPDATE of the row likewise. The VARCHAR
// column is declared with length `decl`: strings longer than declared are
// accepted by the engine today and must then read back in full as well.
func verifH_C08_disk() {
	slen := verifParam("slen", 2)
	decl := verifParam("decl", 255) // declared length of the VARCHAR column
	rs := verifNewDB(0)
	ct := verifCreateStmt("t", verifStdCols)
	ct.Elements[2].ColumnDefinition.DataType = sql.CharacterStringType{Len: int64(decl), Type: sql.T_VARCHAR}
	verifAssert(EvaluateCreateTable(ct, rs) == nil, "create")
	// pre=1: a row with a value in every column is stored (and scanned) before the row under test
	var before [][]interface{}
	if verifParam("pre", 0) == 1 {
		first := []interface{}{int64(verifI32("pa")), verifI64("pb"), verifString("ps", slen), verifBool("pf")}
		_, err := EvaluateInsert(verifInsertStmt("t", nil, [][]interface{}{first}), rs)
		verifAssert(err == nil, "insert-ok")
		before = append(before, first)
	}
	all := func(row []interface{}) [][]interface{} {
		return append(append([][]interface{}(nil), before...), row)
	}
	row := []interface{}{int64(verifI32("a")), verifI64("b"), verifString("s", slen), verifBool("f")}
	if k := verifChoice("null", 5); k > 0 {
		row[k-1] = nil
	}
	_, err := EvaluateInsert(verifInsertStmt("t", nil, [][]interface{}{row}), rs)
	if slen > decl && err != nil {
		// a string longer than the declared length may be refused (today it is
		// accepted and stored in full); refused means nothing is stored
		verifExpectRows(rs, before, "refused/")
		return
	}
	verifAssert(err == nil, "insert-ok")
	verifExpectRows(rs, all(row), "cached/")
	step := verifChoice("then", 3)
	if step >= 1 {
		// in-place update with new symbolic values
		nb, ns := verifI64("nb"), verifString("ns", slen)
		err := EvaluateUpdate(sql.UpdateStatementSearched{TableName: "t",
			Set: []sql.SetClause{{ObjectColumn: "b", UpdateSource: nb}, {ObjectColumn: "s", UpdateSource: ns}}}, rs)
		verifAssert(err == nil, "update-ok")
		row = []interface{}{row[0], nb, ns, row[3]}
		for i := range before {
			before[i] = []interface{}{before[i][0], nb, ns, before[i][3]}
		}
		verifExpectRows(rs, all(row), "updated/")
	}
	// written to disk, evicted (fresh store = cold cache), reloaded
	verifAssert(storage.VerifFlush(rs) == nil, "flush-ok")
	storage.VerifAbandon(rs)
	rs2 := verifOpenDB(0)
	verifExpectRows(rs2, all(row), "reloaded/")
	if step == 2 {
		// one more change that lives only in the log, then a crash
		nb2 := verifI64("nb2")
		err := EvaluateUpdate(sql.UpdateStatementSearched{TableName: "t",
			Set: []sql.SetClause{{ObjectColumn: "b", UpdateSource: nb2}}}, rs2)
		verifAssert(err == nil, "update2-ok")
		row = []interface{}{row[0], nb2, row[2], row[3]}
		for i := range before {
			before[i] = []interface{}{before[i][0], nb2, before[i][2], before[i][3]}
		}
	}
	rs3 := verifRecover(rs2, "restart/")
	if rs3 != nil {
		verifExpectRows(rs3, all(row), "restart/")
	}
	verifReach("end")
}

// H08-text: INSERT written as SQL text with symbolic decimal digits (n digits
// for the INT column, m for the BIGINT column) and symbolic printable bytes in a
// quoted string, through the real scanner and parser, the executor and the
// storage: the stored values are the numbers the digits denote, or the
// statement is refused (INT beyond 32 bits, BIGINT beyond 64 bits) and nothing is stored.
func verifH_C08_text() {
	n, m := verifParam("intdigits", 2), verifParam("bigdigits", 2)
	slen := verifParam("slen", 2)
	// A number literal is a concrete prefix followed by k symbolic digits. The
	// boundary cases keep the prefix of MaxInt32 / MaxInt64 and leave the last
	// digit(s) symbolic, so the solver decides exactly where acceptance ends
	// without multiplying long symbolic digit strings.
	//   intdigits/bigdigits = k  (1..3): k symbolic digits
	//   = 10: "214748364" + 1 symbolic digit      (around MaxInt32 = 2147483647)
	//   = 19: "922337203685477580" + 1 symbolic digit (around MaxInt64 = 9223372036854775807)
	//   = 20: "9223372036854775807" + 1 symbolic digit (always beyond 64 bits)
	digits := func(tag string, k int) ([]byte, int64, bool) {
		prefix := ""
		switch k {
		case 10:
			prefix, k = "214748364", 1
		case 19:
			prefix, k = "922337203685477580", 1
		case 20:
			prefix, k = "9223372036854775807", 1
		}
		var v uint64
		fits := true
		d := []byte(prefix)
		for i := range d {
			v = v*10 + uint64(d[i]-'0')
		}
		sd := verifBytes(tag, k)
		for i := range sd {
			verifAssume(verifAnd(sd[i] >= '0', sd[i] <= '9'))
			fits = verifAnd(fits, verifAnd(v <= math.MaxInt64/10, v*10 <= math.MaxInt64-uint64(sd[i]-'0')))
			v = v*10 + uint64(sd[i]-'0')
		}
		return append(d, sd...), int64(v), fits
	}
	ad, av, afits := digits("a", n)
	bd, bv, bfits := digits("b", m)
	sb := verifBytes("s", slen)
	for _, c := range sb {
		verifAssume(verifAnd(verifAnd(c >= 0x20, c < 0x7f), verifAnd(c != '\'', c != '\\')))
	}
	text := "INSERT INTO t VALUES (" + string(ad) + ", " + string(bd) + ", '" + string(sb) + "', true)"
	rs := verifNewDB(0)
	verifAssert(EvaluateCreateTable(verifCreateStmt("t", verifStdCols), rs) == nil, "create")
	stmt, perr := parseSQL(text)
	wantParse := verifAnd(afits, bfits) // strconv.Atoi refuses what does not fit in 64 bits
	verifAssert((perr == nil) == wantParse, "parse-accepts-iff-64-bit")
	if perr != nil {
		verifExpectRows(rs, nil, "refused/")
		verifReach("refused-by-parser")
		return
	}
	is, ok := stmt.(sql.InsertStatement)
	verifAssert(ok, "is-insert")
	_, err := EvaluateInsert(is, rs)
	wantOK := av <= math.MaxInt32
	verifAssert((err == nil) == wantOK, "accepted-iff-int-fits-32-bits")
	if err != nil {
		verifExpectRows(rs, nil, "refused/")
		verifReach("refused-by-engine")
		return
	}
	want := [][]interface{}{{av, bv, string(sb), true}}
	verifExpectRows(rs, want, "stored/")
	verifAssert(storage.VerifFlush(rs) == nil, "flush-ok")
	rs2 := verifRecover(rs, "restart/")
	if rs2 != nil {
		verifExpectRows(rs2, want, "restart/")
	}
	verifReach("end")
	_ = fmt.Sprint
}
