//go:build verif

package engine

import (
	"errors"
	"fmt"

	"github.com/mk6i/mkdb/sql"
	"github.com/mk6i/mkdb/storage"
)

func init() {
	verifRegister("C06_join", verifH_C06_join)
	verifRegister("C06_names", verifH_C06_names)
}

// a reference row with a (possibly symbolic) membership flag
type verifFlagRow struct {
	vals []interface{}
	in   bool
}

func verifPad(n int) []interface{} { return make([]interface{}, n) }

func verifConcat(a, b []interface{}) []interface{} {
	out := append([]interface{}(nil), a...)
	return append(out, b...)
}

// verifRefJoin is the relational definition of l JOIN r ON cond for flagged inputs.
func verifRefJoin(l, r []verifFlagRow, lw, rw int, jt sql.JoinType, cond func(row []interface{}) bool) []verifFlagRow {
	var out []verifFlagRow
	matchedL := make([]bool, len(l))
	matchedR := make([]bool, len(r))
	for i, lr := range l {
		for j, rr := range r {
			row := verifConcat(lr.vals, rr.vals)
			m := verifAnd(verifAnd(lr.in, rr.in), cond(row))
			out = append(out, verifFlagRow{row, m})
			matchedL[i] = verifOr(matchedL[i], m)
			matchedR[j] = verifOr(matchedR[j], m)
		}
	}
	switch jt {
	case sql.LEFT_JOIN:
		for i, lr := range l {
			out = append(out, verifFlagRow{verifConcat(lr.vals, verifPad(rw)), verifAnd(lr.in, !matchedL[i])})
		}
	case sql.RIGHT_JOIN:
		for j, rr := range r {
			out = append(out, verifFlagRow{verifConcat(verifPad(lw), rr.vals), verifAnd(rr.in, !matchedR[j])})
		}
	}
	return out
}

// verifMultisetEq: result rows (concrete count) equal the flagged reference as multisets.
func verifMultisetEq(rows []*storage.Row, ref []verifFlagRow, pre string) {
	var flags []bool
	for _, f := range ref {
		flags = append(flags, f.in)
	}
	verifCheck(len(rows) == verifCount(flags), pre+"row-count")
	for _, r := range rows {
		var inRes, inRef []bool
		for _, o := range rows {
			inRes = append(inRes, verifRowEq(o.Vals, r.Vals))
		}
		for _, f := range ref {
			inRef = append(inRef, verifAnd(f.in, verifRowEq(f.vals, r.Vals)))
		}
		verifCheck(verifCount(inRes) == verifCount(inRef), pre+"multiplicity")
	}
}


// ON condition forms over the combined row; li/ri are the positions of the two
// join keys in the combined row, lq/rq their qualified references.
func verifOnCond(tag string, form int, lq, rq sql.ColumnReference, li, ri int) (interface{}, func(row []interface{}) bool) {
	pred := func(l interface{}, op sql.TokenType, r interface{}) sql.Predicate {
		return sql.Predicate{ComparisonPredicate: sql.ComparisonPredicate{LHS: l, CompOp: op, RHS: r}}
	}
	switch form {
	case 0: // equality of the keys
		return pred(lq, sql.EQ, rq), func(row []interface{}) bool { return row[li].(int64) == row[ri].(int64) }
	case 1: // inequality with a symbolic operator
		op := sql.TokenType(verifIntFrom(tag+"op", verifAllOps))
		return pred(lq, op, rq), func(row []interface{}) bool { return verifCmpVals(op, row[li], row[ri]) }
	case 2: // AND of two
		x := int64(verifI32(tag + "lit"))
		return sql.BooleanTerm{LHS: pred(lq, sql.EQ, rq), RHS: pred(lq, sql.GT, x)},
			func(row []interface{}) bool { return verifAnd(row[li].(int64) == row[ri].(int64), row[li].(int64) > x) }
	case 3: // OR of two
		x := int64(verifI32(tag + "lit"))
		return sql.SearchCondition{LHS: pred(lq, sql.EQ, rq), RHS: pred(rq, sql.LTE, x)},
			func(row []interface{}) bool { return verifOr(row[li].(int64) == row[ri].(int64), row[ri].(int64) <= x) }
	default: // literal-only condition
		x, y := int64(verifI32(tag+"l1")), int64(verifI32(tag+"l2"))
		return pred(x, sql.EQ, y), func(row []interface{}) bool { return x == y }
	}
}

// H06-join: up to three two-column tables with symbolic cells, a chain of 1-2
// joins of any type, aliases or names; result = relational definition as a multiset.
func verifH_C06_join() {
	n1, n2, n3 := verifParam("n1", 2), verifParam("n2", 2), verifParam("n3", 1)
	chain := verifParam("chain", 1)
	selfJoin := verifParam("self", 0) == 1
	// table widths (number of columns, the first is the join key "id")
	w1, w2 := verifParam("w1", 2), verifParam("w2", 2)
	mkw := func(name string, n, w int) *verifStubTable {
		t := &verifStubTable{cols: []string{"id"}}
		for c := 1; c < w; c++ {
			t.cols = append(t.cols, string(rune('u'+c)))
		}
		for i := 0; i < n; i++ {
			row := []interface{}{int64(verifI32(name + "id"))}
			for c := 1; c < w; c++ {
				row = append(row, int64(verifI32(name+"v")))
			}
			t.rows = append(t.rows, row)
		}
		return t
	}
	mk := func(name string, n int) *verifStubTable { return mkw(name, n, 2) }
	t1, t2, t3 := mkw("t1", n1, w1), mkw("t2", n2, w2), mk("t3", n3)
	if selfJoin {
		w2 = w1
	}
	stub := &verifRM{tables: map[string]*verifStubTable{"t1": t1, "t2": t2, "t3": t3}}
	var rm RelationManager = stub
	if verifParam("real", 0) == 1 {
		rm = verifRealize(stub, []string{"t1", "t2", "t3"})
	}
	flag := func(t *verifStubTable) []verifFlagRow {
		var out []verifFlagRow
		for _, r := range t.rows {
			out = append(out, verifFlagRow{r, true})
		}
		return out
	}

	// first join: t1 [a] JOIN t2 [b]   (self join: t1 a JOIN t1 b)
	useAlias := verifChoice("alias", 2) == 1 || selfJoin
	lname, rname := "t1", "t2"
	rtab := t2
	if selfJoin {
		rname, rtab = "t1", t1
	}
	lid, rid := lname, rname
	ltn, rtn := sql.TableName{Name: lname}, sql.TableName{Name: rname}
	if useAlias {
		lid, rid = "a", "b"
		ltn.CorrelationName, rtn.CorrelationName = "a", "b"
	}
	jt1 := verifJoinTypes[verifChoice("jt1", 3)]
	on1, ref1 := verifOnCond("on1", verifChoice("onform1", 5), sql.ColumnReference{Qualifier: lid, ColumnName: "id"}, sql.ColumnReference{Qualifier: rid, ColumnName: "id"}, 0, w1)
	var from sql.TableReference = sql.QualifiedJoin{LHS: ltn, JoinType: jt1, RHS: rtn, JoinCondition: on1}
	ref := verifRefJoin(flag(t1), flag(rtab), w1, w2, jt1, ref1)
	width := w1 + w2
	if chain == 2 {
		jt2 := verifJoinTypes[verifChoice("jt2", 3)]
		// the second condition uses a column that the first join never pads
		lq, li := sql.ColumnReference{Qualifier: lid, ColumnName: "id"}, 0
		if jt1 == sql.RIGHT_JOIN {
			lq, li = sql.ColumnReference{Qualifier: rid, ColumnName: "id"}, w1
		}
		on2, ref2 := verifOnCond("on2", verifChoice("onform2", 2), lq, sql.ColumnReference{Qualifier: "t3", ColumnName: "id"}, li, width)
		from = sql.QualifiedJoin{LHS: from, JoinType: jt2, RHS: sql.TableName{Name: "t3"}, JoinCondition: on2}
		ref = verifRefJoin(ref, flag(t3), width, 2, jt2, ref2)
		width += 2
	}
	verifTag("jt1", fmt.Sprint(jt1))
	q := sql.Select{
		SelectList:      sql.SelectList{{ValueExpressionPrimary: sql.Asterisk{}}},
		TableExpression: sql.TableExpression{FromClause: sql.FromClause{from}},
	}
	rows, fields, err := EvaluateSelect(q, rm)
	verifAssert(err == nil, "select-ok")
	if err != nil {
		return
	}
	verifAssert(len(fields) == width, "width")
	// columns are addressable through the alias when there is one, the name otherwise
	verifAssert(fields[0].TableID == lid && fields[w1].TableID == rid, "table-ids")
	for _, r := range rows {
		verifAssert(len(r.Vals) == width, "row-width")
	}
	verifMultisetEq(rows, ref, "")
	if chain == 1 {
		// the same join, projecting the last column of each side through its qualifier
		q2 := q
		lastL, lastR := t1.cols[w1-1], rtab.cols[w2-1]
		q2.SelectList = sql.SelectList{
			{ValueExpressionPrimary: sql.ColumnReference{Qualifier: rid, ColumnName: lastR}},
			{ValueExpressionPrimary: sql.ColumnReference{Qualifier: lid, ColumnName: lastL}},
		}
		prow, _, err := EvaluateSelect(q2, rm)
		verifAssert(err == nil, "projection-ok")
		if err == nil {
			var pref []verifFlagRow
			for _, f := range ref {
				pref = append(pref, verifFlagRow{[]interface{}{f.vals[w1+w2-1], f.vals[w1-1]}, f.in})
			}
			verifMultisetEq(prow, pref, "projected/")
		}
	}
	verifReach("end")
}

// H06-names: column addressing. (a) projecting qualified columns through
// aliases / names returns the right columns; (b) an unqualified name that
// exists on both sides is rejected as ambiguous, never resolved silently;
// (c) a name that is hidden by an alias is not addressable through the table name.
func verifH_C06_names() {
	mk := func(name string, cols []string) *verifStubTable {
		t := &verifStubTable{cols: cols}
		for i := 0; i < 2; i++ {
			var r []interface{}
			for _, c := range cols {
				r = append(r, int64(verifI32(name+c)))
			}
			t.rows = append(t.rows, r)
		}
		return t
	}
	t1 := mk("t1", []string{"id", "v"})
	t2 := mk("t2", []string{"id", "w"})
	rm := &verifRM{tables: map[string]*verifStubTable{"t1": t1, "t2": t2}}
	eq := func(l, r sql.ColumnReference) sql.Predicate {
		return sql.Predicate{ComparisonPredicate: sql.ComparisonPredicate{LHS: l, CompOp: sql.EQ, RHS: r}}
	}
	cr := func(q, c string) sql.ColumnReference { return sql.ColumnReference{Qualifier: q, ColumnName: c} }
	jt := verifJoinTypes[verifChoice("jt", 3)]
	switch verifChoice("case", 5) {
	case 0: // qualified projection through names
		q := sql.Select{
			SelectList: sql.SelectList{{ValueExpressionPrimary: cr("t2", "w")}, {ValueExpressionPrimary: cr("t1", "v")}, {ValueExpressionPrimary: cr("", "w")}},
			TableExpression: sql.TableExpression{FromClause: sql.FromClause{sql.QualifiedJoin{
				LHS: sql.TableName{Name: "t1"}, JoinType: sql.INNER_JOIN, RHS: sql.TableName{Name: "t2"}, JoinCondition: eq(cr("t1", "id"), cr("t2", "id"))}}},
		}
		rows, fields, err := EvaluateSelect(q, rm)
		verifAssert(err == nil && len(fields) == 3, "qualified-ok")
		if err != nil {
			return
		}
		var ref []verifFlagRow
		for _, l := range t1.rows {
			for _, r := range t2.rows {
				ref = append(ref, verifFlagRow{[]interface{}{r[1], l[1], r[1]}, l[0].(int64) == r[0].(int64)})
			}
		}
		verifMultisetEq(rows, ref, "names/")
	case 1: // the same table under two aliases
		q := sql.Select{
			SelectList: sql.SelectList{{ValueExpressionPrimary: cr("x", "v")}, {ValueExpressionPrimary: cr("y", "v")}},
			TableExpression: sql.TableExpression{FromClause: sql.FromClause{sql.QualifiedJoin{
				LHS: sql.TableName{Name: "t1", CorrelationName: "x"}, JoinType: jt, RHS: sql.TableName{Name: "t1", CorrelationName: "y"}, JoinCondition: eq(cr("x", "id"), cr("y", "v"))}}},
		}
		rows, _, err := EvaluateSelect(q, rm)
		verifAssert(err == nil, "self-join-ok")
		if err != nil {
			return
		}
		fl := func(t *verifStubTable) []verifFlagRow {
			var out []verifFlagRow
			for _, r := range t.rows {
				out = append(out, verifFlagRow{r, true})
			}
			return out
		}
		full := verifRefJoin(fl(t1), fl(t1), 2, 2, jt, func(row []interface{}) bool { return row[0].(int64) == row[3].(int64) })
		var ref []verifFlagRow
		for _, f := range full {
			ref = append(ref, verifFlagRow{[]interface{}{f.vals[1], f.vals[3]}, f.in})
		}
		verifMultisetEq(rows, ref, "self/")
	case 2: // ambiguous unqualified name in the select list
		q := sql.Select{
			SelectList: sql.SelectList{{ValueExpressionPrimary: cr("", "id")}},
			TableExpression: sql.TableExpression{FromClause: sql.FromClause{sql.QualifiedJoin{
				LHS: sql.TableName{Name: "t1"}, JoinType: jt, RHS: sql.TableName{Name: "t2"}, JoinCondition: eq(cr("t1", "id"), cr("t2", "id"))}}},
		}
		_, _, err := EvaluateSelect(q, rm)
		verifAssert(err != nil && errors.Is(err, storage.ErrFieldAmbiguous), "ambiguous-select-rejected")
	case 3: // ambiguous unqualified name in the ON condition
		q := sql.Select{
			SelectList: sql.SelectList{{ValueExpressionPrimary: sql.Asterisk{}}},
			TableExpression: sql.TableExpression{FromClause: sql.FromClause{sql.QualifiedJoin{
				LHS: sql.TableName{Name: "t1"}, JoinType: jt, RHS: sql.TableName{Name: "t2"}, JoinCondition: eq(cr("", "id"), cr("t2", "id"))}}},
		}
		_, _, err := EvaluateSelect(q, rm)
		verifAssert(err != nil && errors.Is(err, storage.ErrFieldAmbiguous), "ambiguous-on-rejected")
	default: // a table with an alias is addressed through the alias, not the name
		q := sql.Select{
			SelectList: sql.SelectList{{ValueExpressionPrimary: cr("t1", "v")}},
			TableExpression: sql.TableExpression{FromClause: sql.FromClause{sql.QualifiedJoin{
				LHS: sql.TableName{Name: "t1", CorrelationName: "x"}, JoinType: jt, RHS: sql.TableName{Name: "t2"}, JoinCondition: eq(cr("x", "id"), cr("t2", "id"))}}},
		}
		_, _, err := EvaluateSelect(q, rm)
		verifAssert(err != nil && errors.Is(err, storage.ErrFieldNotFound), "hidden-name-not-addressable")
	}
	verifReach("end")
}
