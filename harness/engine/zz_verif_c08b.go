//go:build verif

package engine

import (
	"fmt"

	"github.com/mk6i/mkdb/sql"
	"github.com/mk6i/mkdb/storage"
)

func init() {
	verifRegister("C08_resize", verifH_C08_resize)
}

// H08-resize: an UPDATE that changes the stored length of one row among several
// on the same page - shorter, a little longer, much longer, up to the largest
// accepted row - on a page that is still in the cache it was built in (cold=0)
// or that was written out and read back before the update (cold=1). The
// updated row and its neighbours (every byte symbolic) must read back exactly,
// at once, after flush + cold reload and after a crash + recovery.
func verifH_C08_resize() {
	nrows := verifParam("rows", 3)
	l0 := verifParam("slen", 2)
	cold := verifParam("cold", 1) == 1
	rs := verifNewDB(0)
	verifAssert(EvaluateCreateTable(verifCreateStmt("t", verifStdCols), rs) == nil, "create")
	var rows [][]interface{}
	for i := 0; i < nrows; i++ {
		r := []interface{}{int64(i), verifI64(fmt.Sprintf("b%d", i)), verifString(fmt.Sprintf("s%d_", i), l0+i), verifBool(fmt.Sprintf("f%d", i))}
		_, err := EvaluateInsert(verifInsertStmt("t", nil, [][]interface{}{r}), rs)
		verifAssert(err == nil, "insert-ok")
		rows = append(rows, r)
	}
	if cold {
		verifAssert(storage.VerifFlush(rs) == nil, "flush-ok")
		storage.VerifAbandon(rs)
		rs = verifOpenDB(0)
	}
	k := verifChoice("which-row", nrows)
	old := l0 + k
	// new lengths: empty, one shorter, one longer, ten / forty longer, the largest accepted (row of 400 bytes)
	lens := []int{0, old - 1, old + 1, old + 10, old + 40, 379}
	nl := lens[verifChoice("new-length", len(lens))]
	if nl < 0 {
		nl = 0
	}
	verifTag("grow", fmt.Sprint(nl-old))
	ns := verifString("ns", nl)
	err := EvaluateUpdate(sql.UpdateStatementSearched{TableName: "t",
		Set:   []sql.SetClause{{ObjectColumn: "s", UpdateSource: ns}},
		Where: verifWhere("a", sql.EQ, int64(k))}, rs)
	verifAssert(err == nil, "update-ok")
	if err != nil {
		return
	}
	rows[k] = []interface{}{rows[k][0], rows[k][1], ns, rows[k][3]}
	verifExpectRows(rs, rows, "updated/")
	verifAssert(storage.VerifFlush(rs) == nil, "flush-ok")
	storage.VerifAbandon(rs)
	rs2 := verifOpenDB(0)
	verifExpectRows(rs2, rows, "reloaded/")
	// a second resize, this time only in the log, then a crash
	k2 := verifChoice("which-row2", nrows)
	ns2 := verifString("ns2", 5)
	err = EvaluateUpdate(sql.UpdateStatementSearched{TableName: "t",
		Set:   []sql.SetClause{{ObjectColumn: "s", UpdateSource: ns2}},
		Where: verifWhere("a", sql.EQ, int64(k2))}, rs2)
	verifAssert(err == nil, "update2-ok")
	if err != nil {
		return
	}
	rows[k2] = []interface{}{rows[k2][0], rows[k2][1], ns2, rows[k2][3]}
	rs3 := verifRecover(rs2, "restart/")
	if rs3 != nil {
		verifExpectRows(rs3, rows, "restart/")
	}
	verifReach("end")
}
