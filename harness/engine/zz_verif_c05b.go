//go:build verif

package engine

import (
	"fmt"

	"github.com/mk6i/mkdb/sql"
)

func init() {
	verifRegister("C05_sort", verifH_C05_sort)
}

var verifSortDom = []int{0, 1}

// H05-sort: ORDER BY over more rows than the insertion-sort threshold of the
// library sort (12), with ties in the leading key. R rows of t(a,b,s,f): a is
// symbolic over {0,1} for the first `symrows` rows and i%2 for the others, f is
// symbolic, b is a concrete permutation (distinct), so (key, b) determines the
// whole result. ORDER BY <a|f> <dir>, b <dir> [, third key a|f]: the result must
// be exactly the reference order.
func verifH_C05_sort() {
	R := verifParam("rows", 13)
	sym := verifParam("symrows", R)
	dirs := verifParam("dirs", 0) // bit0: first key DESC, bit1: b DESC
	lead := verifParam("lead", 0) // 0: a, 1: f
	tbl := &verifStubTable{cols: verifC05Cols}
	for i := 0; i < R; i++ {
		var a int64
		var f bool
		if i < sym {
			if lead == 0 {
				a = int64(verifIntFrom("a", verifSortDom))
				f = i%3 == 0
			} else {
				a = int64(i % 2)
				f = verifBool("f")
			}
		} else {
			a, f = int64(i%2), i%3 == 0
		}
		b := int64((i*7 + 3) % R) // a permutation of 0..R-1 when gcd(7,R)=1
		tbl.rows = append(tbl.rows, []interface{}{a, b, fmt.Sprintf("r%d", i), f})
	}
	verifAssume(R%7 != 0)
	rm := &verifRM{tables: map[string]*verifStubTable{"t": tbl}}
	q := sql.Select{
		SelectList:      sql.SelectList{{ValueExpressionPrimary: sql.Asterisk{}}},
		TableExpression: sql.TableExpression{FromClause: sql.FromClause{sql.TableName{Name: "t"}}},
	}
	leadCol := 0
	if lead == 1 {
		leadCol = 3
	}
	keys := []int{leadCol, 1}
	desc := []bool{dirs&1 != 0, dirs&2 != 0}
	for k := range keys {
		tt := sql.ASC
		if desc[k] {
			tt = sql.DESC
		}
		q.SortSpecificationList = append(q.SortSpecificationList, sql.SortSpecification{
			SortKey: sql.ColumnReference{ColumnName: verifC05Cols[keys[k]]}, OrderingSpecification: sql.Token{Type: sql.TokenType(tt)}})
	}
	rows, _, err := EvaluateSelect(q, rm)
	verifAssert(err == nil, "select-ok")
	if err != nil {
		return
	}
	verifAssert(len(rows) == R, "row-count")
	if len(rows) != R {
		return
	}
	// b is distinct, so consecutive rows must be strictly ordered under (lead, b)
	for i := 0; i+1 < len(rows); i++ {
		x, y := rows[i].Vals, rows[i+1].Vals
		verifCheck(verifAnd(verifSortLE(x, y, keys, desc), !verifSortLE(y, x, keys, desc)), "sorted")
	}
	// every table row appears exactly once (b identifies the row)
	for _, r := range tbl.rows {
		var hit []bool
		for _, o := range rows {
			hit = append(hit, verifRowEq(o.Vals, r))
		}
		verifCheck(verifCount(hit) == 1, "permutation-of-reference")
	}
	verifReach("end")
}
