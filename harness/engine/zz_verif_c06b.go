//go:build verif

package engine

import (
	"errors"

	"github.com/mk6i/mkdb/sql"
	"github.com/mk6i/mkdb/storage"
)

func init() {
	verifRegister("C06_resolve", verifH_C06_resolve)
}

type verifRefOpt struct{ q, c string }

// H06-resolve: column addressing over a chain of two joins, every place a column
// can be named. Three tables t1, t2, t3 (t2 optionally under the alias u) with
// one row each; every table has the column id and, by choice, the column x
// (8 layouts). The references in the first ON condition, the second ON
// condition, the WHERE clause and the select list are chosen from menus of
// qualified and unqualified spellings. All cells hold the same symbolic value,
// so every condition that can be evaluated is true and every reference is
// actually resolved. Reference semantics: a reference is resolved against the
// tables visible at its place (t1, t2 in the first ON; all three elsewhere): no
// match = not found, more than one = ambiguous, and then the statement must be
// refused with that kind of error; otherwise one row comes back and the
// projected column holds the cell value.
func verifH_C06_resolve() {
	jt := verifJoinTypes[verifParam("jt", 0)]
	alias := verifParam("alias", 0) == 1
	k := int64(verifI32("k"))
	names := []string{"t1", "t2", "t3"}
	ids := []string{"t1", "t2", "t3"}
	if alias {
		ids[1] = "u"
	}
	hasX := make([]bool, 3)
	rm := &verifRM{tables: map[string]*verifStubTable{}}
	for i, n := range names {
		cols := []string{"id"}
		vals := []interface{}{k}
		if verifChoice("x"+n, 2) == 1 {
			hasX[i] = true
			cols = append(cols, "x")
			vals = append(vals, k)
		}
		rm.tables[n] = &verifStubTable{cols: cols, rows: [][]interface{}{vals}}
	}
	// resolve: number of visible (table, column) pairs a reference matches
	matches := func(r verifRefOpt, visible int) int {
		n := 0
		for i := 0; i < visible; i++ {
			if r.q != "" && r.q != ids[i] {
				continue
			}
			if r.c == "id" || (r.c == "x" && hasX[i]) {
				n++
			}
		}
		return n
	}
	u := ids[1]
	m1 := []verifRefOpt{{"", "id"}, {"", "x"}, {"t1", "id"}, {"t1", "x"}, {u, "x"}}
	m2 := []verifRefOpt{{"", "x"}, {"", "id"}, {"t1", "x"}, {u, "x"}, {u, "id"}, {"t2", "id"}}
	m3 := []verifRefOpt{{"-", ""}, {"", "x"}, {"t3", "x"}, {"", "id"}, {"t1", "id"}}
	m4 := []verifRefOpt{{"*", ""}, {"", "x"}, {"t1", "x"}, {"t3", "x"}, {u, "id"}}
	r1 := m1[verifChoice("ref1", len(m1))]
	r2 := m2[verifChoice("ref2", len(m2))]
	r3 := m3[verifChoice("ref3", len(m3))]
	r4 := m4[verifChoice("ref4", len(m4))]
	cr := func(r verifRefOpt) sql.ColumnReference { return sql.ColumnReference{Qualifier: r.q, ColumnName: r.c} }
	eq := func(l, r interface{}) sql.Predicate {
		return sql.Predicate{ComparisonPredicate: sql.ComparisonPredicate{LHS: l, CompOp: sql.EQ, RHS: r}}
	}
	tn := func(i int) sql.TableName {
		t := sql.TableName{Name: names[i]}
		if ids[i] != names[i] {
			t.CorrelationName = ids[i]
		}
		return t
	}
	inner := sql.QualifiedJoin{LHS: tn(0), JoinType: jt, RHS: tn(1), JoinCondition: eq(cr(r1), cr(verifRefOpt{u, "id"}))}
	outer := sql.QualifiedJoin{LHS: inner, JoinType: jt, RHS: tn(2), JoinCondition: eq(cr(r2), cr(verifRefOpt{"t3", "id"}))}
	q := sql.Select{TableExpression: sql.TableExpression{FromClause: sql.FromClause{outer}}}
	if r3.q != "-" {
		q.WhereClause = sql.WhereClause{SearchCondition: eq(cr(r3), k)}
	}
	if r4.q == "*" {
		q.SelectList = sql.SelectList{{ValueExpressionPrimary: sql.Asterisk{}}}
	} else {
		q.SelectList = sql.SelectList{{ValueExpressionPrimary: cr(r4)}}
	}
	// expected: the kinds of failure present
	notFound, ambiguous := false, false
	note := func(r verifRefOpt, visible int) {
		switch n := matches(r, visible); {
		case n == 0:
			notFound = true
		case n > 1:
			ambiguous = true
		}
	}
	note(r1, 2)
	note(r2, 3)
	if r3.q != "-" {
		note(r3, 3)
	}
	if r4.q != "*" {
		note(r4, 3)
	}
	rows, fields, err := EvaluateSelect(q, rm)
	if notFound || ambiguous {
		verifAssert(err != nil, "unresolvable-reference-rejected")
		if err != nil {
			okKind := (ambiguous && errors.Is(err, storage.ErrFieldAmbiguous)) || (notFound && errors.Is(err, storage.ErrFieldNotFound))
			verifAssert(okKind, "rejected-for-the-right-reason")
		}
		verifReach("rejected")
		return
	}
	verifAssert(err == nil, "resolvable-statement-accepted")
	if err != nil {
		return
	}
	verifAssert(len(rows) == 1, "one-row")
	if len(rows) == 1 {
		if r4.q == "*" {
			w := 3
			for _, h := range hasX {
				if h {
					w++
				}
			}
			verifAssert(len(rows[0].Vals) == w && len(fields) == w, "row-width")
		} else {
			verifAssert(len(rows[0].Vals) == 1, "row-width")
		}
		for _, v := range rows[0].Vals {
			x, isInt := v.(int64)
			verifAssert(isInt && x == k, "cell-value")
		}
	}
	verifReach("end")
}

func init() {
	verifRegister("C06_keys", verifH_C06_keys)
}

// H06-keys: equi-joins over key columns of every type mix. Tables l(k1, k2) and
// r(k1, k2) with 1-2 rows each; every cell is, by choice, a symbolic small
// integer, a symbolic one-byte string whose byte is a digit, or the two-byte
// string of two symbolic digits - so that keys of different types, and
// composite keys, can print alike ("7" and 7; ("1","23") and ("12","3")) without
// being equal. ON is k1 = k1, or k1 = k1 AND k2 = k2; every join type. The
// result is the relational definition as a multiset: values of different types
// are never equal.
func verifH_C06_keys() {
	nl, nr := verifParam("nl", 1), verifParam("nr", 1)
	composite := verifParam("composite", 1) == 1
	jt := verifJoinTypes[verifChoice("jt", 3)]
	cell := func(tag string) interface{} {
		digit := func(t string) byte {
			d := verifU8(t)
			verifAssume(verifAnd(d >= '0', d <= '9'))
			return d
		}
		switch verifChoice(tag+"kind", 3) {
		case 0:
			d := digit(tag + "i")
			return int64(d - '0')
		case 1:
			return string([]byte{digit(tag + "s")})
		default:
			return string([]byte{digit(tag + "s1"), digit(tag + "s2")})
		}
	}
	mk := func(name string, n int) *verifStubTable {
		t := &verifStubTable{cols: []string{"k1", "k2"}}
		for i := 0; i < n; i++ {
			t.rows = append(t.rows, []interface{}{cell(name + "a"), cell(name + "b")})
		}
		return t
	}
	l, r := mk("l", nl), mk("r", nr)
	rm := &verifRM{tables: map[string]*verifStubTable{"l": l, "r": r}}
	cr := func(q, c string) sql.ColumnReference { return sql.ColumnReference{Qualifier: q, ColumnName: c} }
	eq := func(a, b sql.ColumnReference) sql.Predicate {
		return sql.Predicate{ComparisonPredicate: sql.ComparisonPredicate{LHS: a, CompOp: sql.EQ, RHS: b}}
	}
	var on interface{} = eq(cr("l", "k1"), cr("r", "k1"))
	if composite {
		on = sql.BooleanTerm{LHS: eq(cr("l", "k1"), cr("r", "k1")), RHS: eq(cr("l", "k2"), cr("r", "k2"))}
	}
	q := sql.Select{
		SelectList: sql.SelectList{{ValueExpressionPrimary: sql.Asterisk{}}},
		TableExpression: sql.TableExpression{FromClause: sql.FromClause{sql.QualifiedJoin{
			LHS: sql.TableName{Name: "l"}, JoinType: jt, RHS: sql.TableName{Name: "r"}, JoinCondition: on}}},
	}
	rows, _, err := EvaluateSelect(q, rm)
	verifAssert(err == nil, "select-ok")
	if err != nil {
		return
	}
	flag := func(t *verifStubTable) []verifFlagRow {
		var out []verifFlagRow
		for _, x := range t.rows {
			out = append(out, verifFlagRow{x, true})
		}
		return out
	}
	ref := verifRefJoin(flag(l), flag(r), 2, 2, jt, func(row []interface{}) bool {
		m := verifSame(row[0], row[2])
		if composite {
			m = verifAnd(m, verifSame(row[1], row[3]))
		}
		return m
	})
	verifMultisetEq(rows, ref, "keys/")
	verifReach("end")
}
