//go:build verif

package engine

import (
	"fmt"

	"github.com/mk6i/mkdb/storage"
)

func init() {
	verifRegister("C04_hist", verifH_C04_hist)
}


// H04-hist: prefix, d acknowledged free statements, then a flush of the page
// cache is interrupted before one of its page writes or before the header
// write; pages are visited in an order chosen by forking (Go's map order is
// unspecified). Flush triggers: 0 the timer's flush, 1 shutdown (Close),
// 2 CREATE TABLE's own flush, 3 the flush that ends recovery after a crash.
// After recovery every table holds the acknowledged statements and the
// database keeps working.
func verifH_C04_hist() {
	sc := verifParam("prefix", 1)
	d := verifParam("suffix", 1)
	slen := verifParam("slen", 1)
	kinds := verifParam("kinds", 4)
	trigger := verifParam("trigger", 0)
	rs, db := verifPrefixDB(sc, 0, verifParam("warm", 0) == 1)
	hist := ""
	for i := 0; i < d; i++ {
		var st verifStmt
		if k := verifScriptKind(verifParam("script", 0), d, i); k >= 0 {
			st = verifStmtOfKind(db, fmt.Sprintf("s%d", i), slen, k)
		} else {
			st = verifFreeStmt(db, fmt.Sprintf("s%d", i), slen, kinds)
		}
		hist += st.kind + ","
		verifAssert(st.run(rs) == nil, "statement-ok")
		st.apply(db)
	}
	verifTag("stmts", hist)
	verifTag("trigger", fmt.Sprint(trigger))
	unacked := ""
	verifMapOrderChoice(storage.VerifDirtyCacheEntry)
	crashed, at := verifRunWithCrash(verifIsPageEvent, func() {
		switch trigger {
		case 0:
			storage.VerifFlush(rs)
		case 1:
			rs.Close()
		case 2:
			unacked = "newt"
			EvaluateCreateTable(verifCreateStmt("newt", verifStdCols), rs)
		case 3:
			storage.VerifAbandon(rs)
			storage.InitStorage()
		}
	})
	verifMapOrderChoice(nil)
	if !crashed {
		verifReach("flush-completed")
		return
	}
	verifTag("at", at)
	if trigger != 1 && trigger != 3 {
		storage.VerifAbandon(rs)
	}
	err := storage.InitStorage()
	verifAssert(err == nil, "recovery-ok")
	if err != nil {
		return
	}
	rs2 := verifOpenDB(0)
	if unacked == "" {
		verifCheckDB(rs2, db, "rec/")
	} else {
		for _, t := range db.tables {
			verifCheckTable(rs2, t, "rec/")
		}
	}
	more := verifGenInsert(db.tables[0], 1, "m", slen, false)
	verifAssert(more.run(rs2) == nil, "cont/statement-ok")
	more.apply(db)
	if unacked == "" {
		verifCheckDB(rs2, db, "cont/")
	} else {
		for _, t := range db.tables {
			verifCheckTable(rs2, t, "cont/")
		}
	}
	rs3 := verifRecover(rs2, "cont2/")
	if rs3 != nil {
		for _, t := range db.tables {
			verifCheckTable(rs3, t, "cont2/")
		}
	}
	verifReach("end")
}
