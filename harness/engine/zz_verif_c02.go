//go:build verif

package engine

import (
	"fmt"

	"github.com/mk6i/mkdb/storage"
)

func init() {
	verifRegister("C02_hist", verifH_C02_hist)
}


// H02-hist: prefix, then d free statements with a chosen flush placement, then
// a crash; after recovery every table equals the model of the acknowledged
// statements; recovering twice changes nothing; a further statement works and
// gets a fresh row id; optionally a second crash/recover cycle.
func verifH_C02_hist() {
	sc := verifParam("prefix", 1)
	d := verifParam("suffix", 1)
	slen := verifParam("slen", 1)
	kinds := verifParam("kinds", 5)
	cycles := verifParam("cycles", 1)
	rs, db := verifPrefixDB(sc, 0, verifParam("warm", 0) == 1)
	hist := ""
	script := verifParam("script", 0)
	between := verifParam("between", 2) // 2: nothing|flush, 3: nothing|flush|crash+recover
	for i := 0; i < d; i++ {
		var st verifStmt
		if k := verifScriptKind(script, d, i); k >= 0 {
			st = verifStmtOfKind(db, fmt.Sprintf("s%d", i), slen, k)
		} else {
			st = verifFreeStmt(db, fmt.Sprintf("s%d", i), slen, kinds)
		}
		hist += st.kind
		err := st.run(rs)
		verifAssert(err == nil, "statement-ok")
		if err != nil {
			return
		}
		st.apply(db)
		switch verifChoice("between", between) {
		case 1:
			verifAssert(storage.VerifFlush(rs) == nil, "flush-ok")
			hist += "+flush"
		case 2:
			hist += "+crash"
			verifTag("stmts", hist)
			rs = verifRecover(rs, "mid/")
			if rs == nil {
				return
			}
			verifCheckDB(rs, db, "mid/")
		}
		hist += ","
		verifTag("stmts", hist)
	}
	for c := 0; c < cycles; c++ {
		tag := fmt.Sprintf("rec%d/", c)
		verifTag("phase", tag)
		rs = verifRecover(rs, tag)
		if rs == nil {
			return
		}
		verifCheckDB(rs, db, tag)
		// recovery is idempotent
		rs = verifRecover(rs, tag+"again/")
		if rs == nil {
			return
		}
		verifCheckDB(rs, db, tag+"again/")
		// the recovered database keeps working
		verifTag("phase", tag+"cont/")
		more := verifGenInsert(db.tables[0], 1, fmt.Sprintf("m%d", c), slen, false)
		err := more.run(rs)
		verifAssert(err == nil, tag+"cont/statement-ok")
		if err != nil {
			return
		}
		more.apply(db)
		verifCheckDB(rs, db, tag+"cont/")
	}
	verifReach("end")
}
