//go:build verif

package engine

import (
	"fmt"

	"github.com/mk6i/mkdb/sql"
	"github.com/mk6i/mkdb/storage"
)

func init() {
	verifRegister("C17_many", verifH_C17_many)
}

// H17-many: a database with many tables across re-opening. CREATE DATABASE a,
// USE a, `first` tables (each with one row), then the
// store is left and re-entered - by USE of another database and back, by a
// clean shutdown and restart, or by a crash and restart (choice) -, then `more`
// tables are created, and every table of the database must exist with exactly
// its row, before and after one more restart. With first >= 7 the catalog's
// page-table root has moved before the re-opening, with more >= 5 its left-most
// leaf fills up again afterwards.
func verifH_C17_many() {
	first, more := verifParam("first", 7), verifParam("more", 5)
	verifFSReset()
	verifAssert(storage.InitStorage() == nil, "init")
	sess := &Session{}
	verifAssert(sess.ExecQuery("CREATE DATABASE a") == nil, "create-db")
	verifAssert(sess.ExecQuery("USE a") == nil, "use")
	var names []string
	var vals []int64
	mk := func(name string) {
		// the first table and the first one created after the re-opening hold a symbolic digit, the others a fixed one
		d := byte('0' + len(names)%10)
		if len(names) == 0 || len(names) == first {
			d = verifU8("digit")
			verifAssume(verifAnd(d >= '0', d <= '9'))
		}
		verifAssert(sess.ExecQuery("CREATE TABLE "+name+" (a INT)") == nil, "create-table-ok")
		verifAssert(sess.ExecQuery("INSERT INTO "+name+" VALUES ("+string([]byte{d})+")") == nil, "insert-ok")
		names = append(names, name)
		vals = append(vals, int64(d-'0'))
	}
	check := func(tag string) {
		for i, n := range names {
			rows, _, err := EvaluateSelect(sql.Select{
				SelectList:      sql.SelectList{{ValueExpressionPrimary: sql.Asterisk{}}},
				TableExpression: sql.TableExpression{FromClause: sql.FromClause{sql.TableName{Name: n}}},
			}, sess.RelationService)
			verifAssert(err == nil, tag+"table-exists")
			if err != nil {
				continue
			}
			verifAssert(len(rows) == 1, tag+"row-count")
			if len(rows) == 1 {
				v, ok := rows[0].Vals[0].(int64)
				verifAssert(ok && v == vals[i], tag+"row-value")
			}
		}
	}
	for i := 0; i < first; i++ {
		mk(fmt.Sprintf("t%d", i))
	}
	check("before/")
	switch verifChoice("reopen", 3) {
	case 0:
		verifAssert(sess.ExecQuery("CREATE DATABASE b") == nil, "create-db-b")
		verifAssert(sess.ExecQuery("USE b") == nil, "use-b")
		verifAssert(sess.ExecQuery("USE a") == nil, "use-a-again")
		verifTag("reopen", "use-round-trip")
	case 1:
		verifAssert(sess.Close() == nil, "close")
		verifAssert(storage.InitStorage() == nil, "init-after-close")
		sess = &Session{}
		verifAssert(sess.ExecQuery("USE a") == nil, "use-after-restart")
		verifTag("reopen", "clean-restart")
	default:
		verifAssert(storage.InitStorage() == nil, "init-after-crash")
		sess = &Session{}
		verifAssert(sess.ExecQuery("USE a") == nil, "use-after-crash")
		verifTag("reopen", "crash-restart")
	}
	check("reopened/")
	for i := 0; i < more; i++ {
		mk(fmt.Sprintf("u%d", i))
	}
	check("after/")
	verifAssert(sess.Close() == nil, "close2")
	verifAssert(storage.InitStorage() == nil, "init2")
	sess = &Session{}
	verifAssert(sess.ExecQuery("USE a") == nil, "use2")
	check("restart/")
	sess.Close()
	verifReach("end")
}
