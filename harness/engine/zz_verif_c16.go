//go:build verif

package engine

import (
	"fmt"

	"github.com/mk6i/mkdb/storage"
)

func init() {
	verifRegister("C16_cache", verifH_C16_cache)
}

// H16: the same history on a page cache of capacity c (symbolic, small) and on
// the default one, with a flush after every statement: same outcomes, same contents.
func verifH_C16_cache() {
	sc := verifParam("prefix", 2)
	d := verifParam("suffix", 1)
	slen := verifParam("slen", 1)
	kinds := verifParam("kinds", 4)
	cmin, cmax := verifParam("cmin", 6), verifParam("cmax", 10)
	var caps []int
	for c := cmin; c <= cmax; c++ {
		caps = append(caps, c)
	}
	small := verifIntFrom("capacity", caps)

	// the statements are generated once (on a scratch model) and run twice
	scratch := &verifDB{name: "db"}
	for _, s := range verifPrefixStmts(sc) {
		s.apply(scratch)
	}
	var stmts []verifStmt
	gen := scratch.clone()
	for i := 0; i < d; i++ {
		var st verifStmt
		if k := verifScriptKind(verifParam("script", 0), d, i); k >= 0 {
			st = verifStmtOfKind(gen, fmt.Sprintf("s%d", i), slen, k)
		} else {
			st = verifFreeStmt(gen, fmt.Sprintf("s%d", i), slen, kinds)
		}
		st.apply(gen)
		stmts = append(stmts, st)
	}
	type outcome struct {
		errs  []bool
		dirty int // most dirty pages any one statement left behind
	}
	run := func(capacity int, tag string) (outcome, *verifDB) {
		rs, db := verifPrefixDB(sc, capacity, false)
		var o outcome
		for _, st := range stmts {
			// the statement's dirty set at its peak (CREATE TABLE flushes by itself
			// before it returns): counted whenever a page is marked dirty
			storage.VerifPoint = func(ev string, off uint64) {
				if ev == "page.dirty" {
					if d := storage.VerifDirtyCount(rs) + 1; d > o.dirty {
						o.dirty = d
					}
				}
			}
			err := st.run(rs)
			storage.VerifPoint = nil
			if d := storage.VerifDirtyCount(rs); d > o.dirty {
				o.dirty = d
			}
			verifAssert(err != storage.ErrLRUCacheFull, tag+"cache-never-full-of-dirty")
			o.errs = append(o.errs, err != nil)
			if err == nil {
				st.apply(db)
			}
			verifAssert(storage.VerifFlush(rs) == nil, tag+"flush-ok")
			verifCheckDB(rs, db, tag)
		}
		storage.VerifAbandon(rs)
		return o, db
	}
	oBig, _ := run(0, "default/")
	// the property is about statements whose dirty set fits the capacity: every
	// page a statement dirtied stays in the cache until the flush that follows
	// it, and the statement needs one more slot for the page it reads next
	verifAssume(oBig.dirty < small)
	oSmall, _ := run(small, "small/")
	for i := range oSmall.errs {
		verifAssert(oSmall.errs[i] == oBig.errs[i], "same-outcome")
	}
	verifReach("end")
}
