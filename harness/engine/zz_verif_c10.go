//go:build verif

package engine

import (
	"github.com/mk6i/mkdb/sql"
)

func init() {
	verifRegister("C10_glue", verifH_C10_glue)
}

// H10-glue: the same literal cases as C10_literals, but through engine.parseSQL -
// the function every statement of a session goes through - instead of the
// harness's own scanner/parser loop: what the session hands to the executor is
// the statement that was written, whole.
func verifH_C10_glue() {
	n := verifParam("len", 3)
	bs := verifParam("bs", 0) == 1
	var class []int
	for c := 0x20; c < 0x7f; c++ {
		if c != '\'' && (bs || c != '\\') {
			class = append(class, c)
		}
	}
	literal := func() string {
		b := make([]byte, n)
		for i := range b {
			b[i] = byte(verifIntFrom("c", class))
		}
		if bs {
			for i := range b {
				if i == n-1 {
					verifAssume(b[i] != '\\')
				} else {
					verifAssume(verifOr(b[i] != '\\', b[i+1] != '\\'))
				}
			}
		}
		return string(b)
	}
	isOne := func(v interface{}) bool {
		p, ok := v.(sql.Predicate)
		if !ok {
			return false
		}
		c, isCol := p.LHS.(sql.ColumnReference)
		x, isInt := p.RHS.(int64)
		return isCol && c.ColumnName == "a" && p.CompOp == sql.EQ && isInt && x == 1
	}
	switch verifChoice("stmt", 3) {
	case 0:
		lit := literal()
		stmt, err := parseSQL("SELECT a FROM t WHERE s = '" + lit + "' AND a = 1 ORDER BY a LIMIT 3")
		verifAssert(err == nil, "parses")
		sel, ok := stmt.(sql.Select)
		verifAssert(ok, "statement-kind")
		if ok {
			w, _ := sel.WhereClause.(sql.WhereClause)
			bt, isBT := w.SearchCondition.(sql.BooleanTerm)
			verifAssert(isBT, "where-shape")
			if isBT {
				v, isStr := bt.LHS.RHS.(string)
				verifAssert(isStr && v == lit, "literal-value")
				verifAssert(isOne(bt.RHS), "condition-after-the-literal")
			}
			verifAssert(len(sel.SortSpecificationList) == 1, "order-by-after-the-literal")
			verifAssert(sel.LimitOffsetClause.LimitActive && sel.LimitOffsetClause.Limit == 3, "limit-after-the-literal")
		}
	case 1:
		lit := literal()
		stmt, err := parseSQL("UPDATE t SET s = '" + lit + "', a = 2 WHERE a = 1")
		verifAssert(err == nil, "parses")
		us, ok := stmt.(sql.UpdateStatementSearched)
		verifAssert(ok, "statement-kind")
		if ok {
			verifAssert(len(us.Set) == 2, "set-list-length")
			if len(us.Set) == 2 {
				v, isStr := us.Set[0].UpdateSource.(string)
				verifAssert(isStr && v == lit, "literal-value")
			}
			w, isW := us.Where.(sql.WhereClause)
			verifAssert(isW && isOne(w.SearchCondition), "where-after-the-literal")
		}
	default:
		nd := 1 + verifChoice("ndigits", 3)
		d := make([]byte, nd)
		val := int64(0)
		for i := range d {
			d[i] = byte(verifIntFrom("d", []int{'0', '1', '2', '3', '4', '5', '6', '7', '8', '9'}))
			val = val*10 + int64(d[i]-'0')
		}
		stmt, err := parseSQL("DELETE FROM t WHERE b = " + string(d) + " AND a = 1")
		verifAssert(err == nil, "parses")
		ds, ok := stmt.(sql.DeleteStatementSearched)
		verifAssert(ok, "statement-kind")
		if ok {
			w, _ := ds.WhereClause.(sql.WhereClause)
			bt, isBT := w.SearchCondition.(sql.BooleanTerm)
			verifAssert(isBT, "where-shape")
			if isBT {
				v, isInt := bt.LHS.RHS.(int64)
				verifAssert(isInt && v == val, "number-value")
				verifAssert(isOne(bt.RHS), "condition-after-the-literal")
			}
		}
	}
	verifReach("end")
}
