//go:build verif

package engine

// Statement-level harness library: an in-memory model of a database (tables,
// rows in insertion order), statement generators whose values are symbolic,
// and comparison of the real engine's SELECT * against the model.

import (
	"fmt"
	"github.com/mk6i/mkdb/sql"
	"github.com/mk6i/mkdb/storage"
)

type verifCol struct {
	name string
	typ  storage.DataType
}

type verifTable struct {
	name string
	cols []verifCol
	rows [][]interface{}
}

type verifDB struct {
	name   string
	tables []*verifTable
}

func (db *verifDB) table(name string) *verifTable {
	for _, t := range db.tables {
		if t.name == name {
			return t
		}
	}
	return nil
}

func (db *verifDB) clone() *verifDB {
	n := &verifDB{name: db.name}
	for _, t := range db.tables {
		nt := &verifTable{name: t.name, cols: t.cols}
		for _, r := range t.rows {
			nt.rows = append(nt.rows, append([]interface{}(nil), r...))
		}
		n.tables = append(n.tables, nt)
	}
	return n
}

func verifSame(a, b interface{}) bool {
	switch x := a.(type) {
	case nil:
		return b == nil
	case int64:
		y, ok := b.(int64)
		return ok && x == y
	case bool:
		y, ok := b.(bool)
		return ok && x == y
	case string:
		y, ok := b.(string)
		return ok && x == y
	}
	return false
}

var verifStdCols = []verifCol{{"a", storage.TypeInt}, {"b", storage.TypeBigInt}, {"s", storage.TypeVarchar}, {"f", storage.TypeBoolean}}

func verifCreateStmt(name string, cols []verifCol) sql.CreateTable {
	ct := sql.CreateTable{Name: name}
	for _, c := range cols {
		var dt interface{}
		switch c.typ {
		case storage.TypeInt:
			dt = sql.NumericType{}
		case storage.TypeBigInt:
			dt = sql.BigIntType{}
		case storage.TypeVarchar:
			dt = sql.CharacterStringType{Len: 255, Type: sql.T_VARCHAR}
		case storage.TypeBoolean:
			dt = sql.BooleanType{}
		}
		ct.Elements = append(ct.Elements, sql.TableElement{ColumnDefinition: sql.ColumnDefinition{Name: c.name, DataType: dt}})
	}
	return ct
}

func verifInsertStmt(table string, cols []string, rows [][]interface{}) sql.InsertStatement {
	var tvc sql.TableValueConstructor
	for _, r := range rows {
		tvc.TableValueConstructorList = append(tvc.TableValueConstructorList, sql.RowValueConstructor{RowValueConstructorList: r})
	}
	return sql.InsertStatement{
		TableName: table,
		InsertColumnsAndSource: sql.InsertColumnsAndSource{
			InsertColumnList: sql.InsertColumnList{ColumnNames: cols},
			QueryExpression:  tvc,
		},
	}
}

var verifCompOps = []sql.TokenType{sql.EQ, sql.LT, sql.GTE, sql.NEQ, sql.LTE, sql.GT}

func verifWhere(col string, op sql.TokenType, lit interface{}) interface{} {
	return sql.WhereClause{SearchCondition: sql.Predicate{ComparisonPredicate: sql.ComparisonPredicate{
		LHS: sql.ColumnReference{ColumnName: col}, CompOp: op, RHS: lit,
	}}}
}

// verifCmpInt is the reference meaning of a comparison on integers.
func verifCmpInt(op sql.TokenType, a, b int64) bool {
	switch op {
	case sql.EQ:
		return a == b
	case sql.NEQ:
		return a != b
	case sql.LT:
		return a < b
	case sql.LTE:
		return a <= b
	case sql.GT:
		return a > b
	case sql.GTE:
		return a >= b
	}
	panic("bad op")
}

// verifSymRow returns one row of symbolic values for the standard columns
// (a int32 range, b any int64, s string of length slen, f bool).
func verifSymRow(tag string, slen int) []interface{} {
	return []interface{}{int64(verifI32(tag + "a")), verifI64(tag + "b"), verifString(tag+"s", slen), verifBool(tag + "f")}
}

// verifCheckTable compares SELECT * (through the relation manager) with the model.
// lastID carries the greatest row id seen so far in this table scan order; ids
// must be strictly increasing. It returns the row ids.
func verifCheckTable(rm RelationManager, t *verifTable, tag string) []uint32 {
	rows, fields, err := EvaluateSelect(sql.Select{
		SelectList:      sql.SelectList{{ValueExpressionPrimary: sql.Asterisk{}}},
		TableExpression: sql.TableExpression{FromClause: sql.FromClause{sql.TableName{Name: t.name}}},
	}, rm)
	verifAssert(err == nil, tag+"select-ok")
	if err != nil {
		return nil
	}
	verifAssert(len(fields) == len(t.cols), tag+"column-count")
	for i := 0; i < len(fields) && i < len(t.cols); i++ {
		verifAssert(fields[i].Column == any(t.cols[i].name), tag+"column-name")
	}
	verifAssert(len(rows) == len(t.rows), tag+"row-count")
	var ids []uint32
	for i := 0; i < len(rows) && i < len(t.rows); i++ {
		verifAssert(len(rows[i].Vals) == len(t.cols), tag+"row-width")
		if len(rows[i].Vals) != len(t.cols) {
			continue
		}
		ok := true
		for j := range t.cols {
			ok = ok && verifSame(t.rows[i][j], rows[i].Vals[j])
		}
		verifAssert(ok, tag+"row-values")
		if i > 0 {
			verifAssert(rows[i].RowID > rows[i-1].RowID, tag+"row-ids-increasing")
		}
		ids = append(ids, rows[i].RowID)
	}
	return ids
}

// verifTableMatches reports (as one, possibly symbolic, Boolean and without
// asserting anything) whether SELECT * of t equals the model.
func verifTableMatches(rm RelationManager, t *verifTable) bool {
	rows, _, err := rm.Fetch(t.name)
	if err != nil || len(rows) != len(t.rows) {
		return false
	}
	ok := true
	for i := range rows {
		if len(rows[i].Vals) != len(t.cols) {
			return false
		}
		for j := range t.cols {
			ok = verifAnd(ok, verifSame(t.rows[i][j], rows[i].Vals[j]))
		}
	}
	return ok
}

// verifCheckDB compares every table and the catalog with the model, and checks
// that no row id is shared between tables.
func verifCheckDB(rm RelationManager, db *verifDB, tag string) {
	var all []uint32
	for _, t := range db.tables {
		ids := verifCheckTable(rm, t, tag)
		all = append(all, ids...)
	}
	// catalog: sys_schema lists, after the 6 system rows, each table's columns in order
	rows, _, err := rm.Fetch("sys_schema")
	verifAssert(err == nil, tag+"catalog-ok")
	if err == nil {
		want := 6
		for _, t := range db.tables {
			want += len(t.cols)
		}
		verifAssert(len(rows) == want, tag+"catalog-rows")
		k := 6
		for _, t := range db.tables {
			for _, c := range t.cols {
				if k < len(rows) {
					r := rows[k]
					verifAssert(r.Vals[0] == any(t.name) && r.Vals[1] == any(c.name) && r.Vals[2] == any(int64(c.typ)), tag+"catalog-entry")
					all = append(all, r.RowID)
				}
				k++
			}
		}
	}
	uniq := true
	for i := range all {
		for j := i + 1; j < len(all); j++ {
			uniq = uniq && all[i] != all[j]
		}
	}
	verifAssert(uniq, tag+"row-ids-unique")
}

// ---- statements: a generated statement knows how to run and how to update the model

type verifStmt struct {
	kind  string // insert | update | delete | create
	table string
	run   func(rm RelationManager) error
	apply func(db *verifDB)
	nrows int
	// applyN applies only the first j row operations of the statement, in the
	// order the engine applies them (nil for CREATE TABLE); rowOps counts them.
	applyN func(db *verifDB, j int)
	rowOps func(db *verifDB) int
}

func verifColNames(cols []verifCol) []string {
	var out []string
	for _, c := range cols {
		out = append(out, c.name)
	}
	return out
}

// verifNullMasks: which of the standard columns an INSERT leaves NULL (a is
// never NULL: the generated WHERE clauses compare it).
var verifNullMasks = [][]bool{{false, false, false, false}, {false, false, true, false}, {false, true, false, true}}

func verifGenInsert(t *verifTable, n int, tag string, slen int, withCols bool) verifStmt {
	var rows [][]interface{}
	for i := 0; i < n; i++ {
		rows = append(rows, verifSymRow(tag, slen))
	}
	var cols []string
	if withCols {
		cols = verifColNames(t.cols)
	}
	stRows := rows
	if nm := verifParam("nulls", 1); nm > 1 {
		// NULLs: with a column list the NULL columns are left out of the statement,
		// without one they are written as NULL values
		mask := verifNullMasks[verifChoice(tag+"nullmask", nm)]
		stRows = nil
		if withCols {
			cols = nil
			for j, c := range t.cols {
				if !mask[j] {
					cols = append(cols, c.name)
				}
			}
		}
		for _, r := range rows {
			var sr []interface{}
			for j := range r {
				if mask[j] {
					r[j] = nil
					if withCols {
						continue
					}
				}
				sr = append(sr, r[j])
			}
			stRows = append(stRows, sr)
		}
	}
	st := verifInsertStmt(t.name, cols, stRows)
	return verifStmt{kind: "insert", table: t.name, nrows: n,
		run: func(rm RelationManager) error { _, err := EvaluateInsert(st, rm); return err },
		apply: func(db *verifDB) {
			mt := db.table(t.name)
			for _, r := range rows {
				mt.rows = append(mt.rows, append([]interface{}(nil), r...))
			}
		},
		rowOps: func(db *verifDB) int { return n },
		applyN: func(db *verifDB, j int) {
			mt := db.table(t.name)
			for i := 0; i < j && i < len(rows); i++ {
				mt.rows = append(mt.rows, append([]interface{}(nil), rows[i]...))
			}
		}}
}

func verifGenDelete(t *verifTable, tag string) verifStmt {
	op := verifCompOps[verifChoice(tag+"op", verifParam("nops", len(verifCompOps)))]
	x := int64(verifI32(tag + "x"))
	st := sql.DeleteStatementSearched{TableName: t.name, WhereClause: verifWhere("a", op, x)}
	return verifStmt{kind: "delete", table: t.name,
		run: func(rm RelationManager) error { _, err := EvaluateDelete(st, rm); return err },
		apply: func(db *verifDB) {
			mt := db.table(t.name)
			var keep [][]interface{}
			for _, r := range mt.rows {
				if !verifCmpInt(op, r[0].(int64), x) {
					keep = append(keep, r)
				}
			}
			mt.rows = keep
		},
		rowOps: func(db *verifDB) int {
			n := 0
			for _, r := range db.table(t.name).rows {
				if verifCmpInt(op, r[0].(int64), x) {
					n++
				}
			}
			return n
		},
		applyN: func(db *verifDB, j int) {
			mt := db.table(t.name)
			var keep [][]interface{}
			done := 0
			for _, r := range mt.rows {
				if done < j && verifCmpInt(op, r[0].(int64), x) {
					done++
					continue
				}
				keep = append(keep, r)
			}
			mt.rows = keep
		}}
}

func verifGenUpdate(t *verifTable, tag string, slen int) verifStmt {
	op := verifCompOps[verifChoice(tag+"op", verifParam("nops", len(verifCompOps)))]
	x := int64(verifI32(tag + "x"))
	if verifParam("updall", 0) == 1 {
		// every row (the prefix rows have a >= 0): a statement with as many row operations as the table has rows
		op, x = sql.GT, -1
	}
	if ux := verifParam("updx", -1); ux >= 0 {
		// the one row with a = updx (long tables: a fixed depth in the leaf chain instead of a fork per row)
		op, x = sql.EQ, int64(ux)
	}
	nb := verifI64(tag + "nb")
	ns := verifString(tag+"ns", slen)
	st := sql.UpdateStatementSearched{TableName: t.name,
		Set:   []sql.SetClause{{ObjectColumn: "b", UpdateSource: nb}, {ObjectColumn: "s", UpdateSource: ns}},
		Where: verifWhere("a", op, x)}
	return verifStmt{kind: "update", table: t.name,
		run: func(rm RelationManager) error { return EvaluateUpdate(st, rm) },
		apply: func(db *verifDB) {
			mt := db.table(t.name)
			for _, r := range mt.rows {
				if verifCmpInt(op, r[0].(int64), x) {
					r[1], r[2] = nb, ns
				}
			}
		},
		rowOps: func(db *verifDB) int {
			n := 0
			for _, r := range db.table(t.name).rows {
				if verifCmpInt(op, r[0].(int64), x) {
					n++
				}
			}
			return n
		},
		applyN: func(db *verifDB, j int) {
			mt := db.table(t.name)
			done := 0
			for _, r := range mt.rows {
				if done < j && verifCmpInt(op, r[0].(int64), x) {
					r[1], r[2] = nb, ns
					done++
				}
			}
		}}
}

func verifGenCreate(name string) verifStmt {
	st := verifCreateStmt(name, verifStdCols)
	return verifStmt{kind: "create", table: name,
		run: func(rm RelationManager) error { return EvaluateCreateTable(st, rm) },
		apply: func(db *verifDB) {
			db.tables = append(db.tables, &verifTable{name: name, cols: verifStdCols})
		}}
}

// verifGenRefusedCreate: a CREATE TABLE the engine must refuse (a VARCHAR length
// beyond 32 bits in its second column). Histories contain failing statements
// too; run reports success iff the statement was refused, apply changes nothing.
func verifGenRefusedCreate(name string, tag string) verifStmt {
	ct := verifCreateStmt(name, verifStdCols[:2])
	big := verifI64(tag + "len")
	verifAssume(big > 2147483647)
	ct.Elements[1].ColumnDefinition.DataType = sql.CharacterStringType{Len: big, Type: sql.T_VARCHAR}
	return verifStmt{kind: "refused-create", table: name,
		run: func(rm RelationManager) error {
			if err := EvaluateCreateTable(ct, rm); err == nil {
				return errInvalidAccepted
			}
			return nil
		},
		apply:  func(db *verifDB) {},
		rowOps: func(db *verifDB) int { return 0 },
		applyN: func(db *verifDB, j int) {}}
}

// verifGenRefusedInsert: a one-row INSERT the engine must refuse (a string for
// the BIGINT column, an INT beyond 32 bits, or a row of 401 bytes - one more
// than the largest accepted - by choice; the last one is refused by the page
// layer, after the executor and the tree have already started on it).
func verifGenRefusedInsert(t *verifTable, tag string) verifStmt {
	r := verifSymRow(tag, 1)
	switch verifChoice(tag+"how", 3) {
	case 0:
		r[1] = verifString(tag+"wrong", 1)
	case 1:
		x := verifI64(tag + "big")
		verifAssume(verifOr(x > 2147483647, x < -2147483648))
		r[0] = x
	default:
		r[2] = verifLongString(tag+"long", 380)
	}
	st := verifInsertStmt(t.name, nil, [][]interface{}{r})
	return verifStmt{kind: "refused-insert", table: t.name,
		run: func(rm RelationManager) error {
			if _, err := EvaluateInsert(st, rm); err == nil {
				return errInvalidAccepted
			}
			return nil
		},
		apply:  func(db *verifDB) {},
		rowOps: func(db *verifDB) int { return 0 },
		applyN: func(db *verifDB, j int) {}}
}

var errInvalidAccepted = verifErr("an invalid statement was accepted")

type verifErr string

func (e verifErr) Error() string { return string(e) }

// verifFreeStmt picks one statement among insert(1), delete, update, insert(2), create,
// and (kinds 6, 7) a CREATE TABLE and an INSERT that the engine must refuse.
func verifFreeStmt(db *verifDB, tag string, slen int, kinds int) verifStmt {
	return verifStmtOfKind(db, tag, slen, verifChoice(tag+"kind", kinds))
}

// verifScriptKind returns the statement kind for position i of the decimal
// script (digits 1..5 = kinds 0..4, most significant digit first), or -1.
func verifScriptKind(script, n, i int) int {
	for j := n - 1; j > i; j-- {
		script /= 10
	}
	d := script % 10
	if d == 0 {
		return -1
	}
	return d - 1
}

func verifStmtOfKind(db *verifDB, tag string, slen int, k int) verifStmt {
	if k == 4 {
		return verifGenCreate("n" + tag)
	}
	if k == 5 {
		return verifGenRefusedCreate("r"+tag, tag)
	}
	t := db.tables[0]
	if len(db.tables) > 1 {
		t = db.tables[verifChoice(tag+"table", len(db.tables))]
	}
	switch k {
	case 6:
		return verifGenRefusedInsert(t, tag)
	case 0:
		return verifGenInsert(t, 1, tag, slen, false)
	case 1:
		return verifGenDelete(t, tag)
	case 2:
		return verifGenUpdate(t, tag, slen)
	default:
		return verifGenInsert(t, 2, tag, slen, true)
	}
}

// ---- fixed (concrete) prefixes that bring the database next to a structural event

// verifConcreteRow: row number i with recognisable values.
func verifConcreteRow(i int) []interface{} {
	r := []interface{}{int64(i), int64(i) * 1000003, string([]byte{byte('a' + i%26)}), i%2 == 0}
	// some rows carry NULLs (after rows that do not, and before others)
	if i%4 == 1 {
		r[2] = nil
	}
	if i%7 == 3 {
		r[1], r[3] = nil, nil
	}
	return r
}

func verifMustRun(rm RelationManager, db *verifDB, s verifStmt) {
	err := s.run(rm)
	verifAssert(err == nil, "prefix-statement-ok")
	if err != nil {
		verifAssume(false)
	}
	s.apply(db)
}

func verifConcreteInsert(t *verifTable, from, n int) verifStmt {
	var rows [][]interface{}
	for i := 0; i < n; i++ {
		rows = append(rows, verifConcreteRow(from+i))
	}
	st := verifInsertStmt(t.name, nil, rows)
	return verifStmt{kind: "insert", table: t.name, nrows: n,
		run: func(rm RelationManager) error { _, err := EvaluateInsert(st, rm); return err },
		apply: func(db *verifDB) {
			mt := db.table(t.name)
			for _, r := range rows {
				mt.rows = append(mt.rows, append([]interface{}(nil), r...))
			}
		}}
}

// verifPrefixStmts returns the concrete statements of prefix scenario sc
// (after CREATE TABLE t). Scenarios:
//
//	0: empty table t             1: t with 3 rows
//	2: t with 8 rows (next insert splits the root leaf)
//	3: t with 8 rows, rows with a in {5,6} deleted
//	4: t with 9 rows (root already split: two leaves)
//	5: t with 12 rows, a=2 and a=10 deleted (tombstones on both leaves)
//	6: two tables t (8 rows) and u (3 rows)
//	7: t with 16 rows (three leaves), a=13 deleted
//	8: t with 30 rows (7 leaves)   9: t with 40 rows and u with 20 rows
//	10: six tables t,u,v,w,x,y (3 rows / 1 row each): the next CREATE TABLE splits the sys_pages leaf
//	11: t with 241 rows (about 60 leaves); the next row ids are 255, 256, 257
//	12: twelve tables t, t1..t11 of ten rows each
func verifPrefixStmts(sc int) []verifStmt {
	tt := &verifTable{name: "t", cols: verifStdCols}
	tu := &verifTable{name: "u", cols: verifStdCols}
	del := func(tbl string, v int64) verifStmt {
		st := sql.DeleteStatementSearched{TableName: tbl, WhereClause: verifWhere("a", sql.EQ, v)}
		return verifStmt{kind: "delete", table: tbl,
			run: func(rm RelationManager) error { _, err := EvaluateDelete(st, rm); return err },
			apply: func(db *verifDB) {
				mt := db.table(tbl)
				var keep [][]interface{}
				for _, r := range mt.rows {
					if r[0].(int64) != v {
						keep = append(keep, r)
					}
				}
				mt.rows = keep
			}}
	}
	out := []verifStmt{verifGenCreate("t")}
	switch sc {
	case 0:
	case 1:
		out = append(out, verifConcreteInsert(tt, 0, 3))
	case 2:
		out = append(out, verifConcreteInsert(tt, 0, 8))
	case 3:
		out = append(out, verifConcreteInsert(tt, 0, 8), del("t", 5), del("t", 6))
	case 4:
		out = append(out, verifConcreteInsert(tt, 0, 9))
	case 5:
		out = append(out, verifConcreteInsert(tt, 0, 12), del("t", 2), del("t", 10))
	case 6:
		out = append(out, verifConcreteInsert(tt, 0, 8), verifGenCreate("u"), verifConcreteInsert(tu, 100, 3))
	case 7:
		out = append(out, verifConcreteInsert(tt, 0, 16), del("t", 13))
	case 8: // 30 rows: 7 leaves under one root
		out = append(out, verifConcreteInsert(tt, 0, 30), del("t", 17))
	case 9: // 60 rows in two tables
		out = append(out, verifConcreteInsert(tt, 0, 40), verifGenCreate("u"), verifConcreteInsert(tu, 100, 20))
	case 10: // six tables: the next CREATE TABLE is the 7th user table (the sys_pages leaf splits)
		out = append(out, verifConcreteInsert(tt, 0, 3))
		for i, n := range []string{"u", "v", "w", "x", "y"} {
			out = append(out, verifGenCreate(n), verifConcreteInsert(&verifTable{name: n, cols: verifStdCols}, 100*(i+1), 1))
		}
	case 11: // 241 rows (about 60 leaves under one root); the row id counter stands at 254, so the next two ids cross a multiple of 256
		out = append(out, verifConcreteInsert(tt, 0, 241))
	case 12: // twelve tables of ten rows each: every table has an inner root and two leaves, the catalog spans several pages
		out = append(out, verifConcreteInsert(tt, 0, 10))
		for i := 1; i < 12; i++ {
			n := fmt.Sprintf("t%d", i)
			out = append(out, verifGenCreate(n), verifConcreteInsert(&verifTable{name: n, cols: verifStdCols}, 100*i, 10))
		}
	default:
		panic("unknown prefix scenario")
	}
	return out
}

const verifNumPrefixes = 13

// verifNewDB creates the data directory and database "db" and opens it with the timer off.
func verifNewDB(cacheSize int) *storage.RelationService {
	verifFSReset()
	verifAssert(storage.InitStorage() == nil, "init-storage")
	verifAssert(storage.CreateDB("db") == nil, "create-db")
	return verifOpenDB(cacheSize)
}

func verifOpenDB(cacheSize int) *storage.RelationService {
	rs, err := storage.VerifOpenRelation("db", cacheSize)
	verifAssert(err == nil, "open-db")
	if err != nil {
		verifAssume(false)
	}
	return rs
}

// verifPrefixDB brings database "db" into prefix scenario sc and returns the
// open relation service and the model. With warm=false the prefix is flushed
// and the database reopened (cold cache); the engine then builds the on-disk
// image once per worker and reuses it on later paths (the prefix is concrete,
// so this changes nothing but speed). With warm=true the prefix statements are
// run on this path and their pages stay dirty in the cache.
func verifPrefixDB(sc int, cacheSize int, warm bool) (*storage.RelationService, *verifDB) {
	db := &verifDB{name: "db"}
	stmts := verifPrefixStmts(sc)
	if warm {
		rs := verifNewDB(cacheSize)
		for _, s := range stmts {
			verifMustRun(rs, db, s)
		}
		return rs, db
	}
	key := "prefix" + string(rune('a'+sc))
	if !verifFSCacheLoad(key) {
		rs := verifNewDB(0)
		scratch := &verifDB{name: "db"}
		for _, s := range stmts {
			verifMustRun(rs, scratch, s)
		}
		verifAssert(storage.VerifFlush(rs) == nil, "prefix-flush")
		storage.VerifAbandon(rs)
		verifFSCacheSave(key)
	}
	for _, s := range stmts {
		s.apply(db)
	}
	return verifOpenDB(cacheSize), db
}


// verifRealize stores the tables of a stub relation manager in a real database
// (all columns INT: the cells are int32-range integers), flushes it and returns
// a cold store on it: the same rows, now served by the real Fetch (catalog
// lookup, page and row decoding) instead of the stub.
func verifRealize(rm *verifRM, order []string) RelationManager {
	rs := verifNewDB(0)
	for _, name := range order {
		t := rm.tables[name]
		if t == nil {
			continue
		}
		var cols []verifCol
		for _, c := range t.cols {
			cols = append(cols, verifCol{c, storage.TypeInt})
		}
		verifAssert(EvaluateCreateTable(verifCreateStmt(name, cols), rs) == nil, "real/create")
		if len(t.rows) > 0 {
			_, err := EvaluateInsert(verifInsertStmt(name, nil, t.rows), rs)
			verifAssert(err == nil, "real/insert-ok")
		}
	}
	verifAssert(storage.VerifFlush(rs) == nil, "real/flush-ok")
	storage.VerifAbandon(rs)
	return verifOpenDB(0)
}
