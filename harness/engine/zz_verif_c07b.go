//go:build verif

package engine

import (
	"strings"

	"github.com/mk6i/mkdb/sql"
)

func init() {
	verifRegister("C07_multi", verifH_C07_multi)
}

type verifAggItem struct {
	text string
	kind int // 0 count(*), 1 count(col), 2 avg(col)
	col  int // index into the wide row
}

// H07-multi: several aggregates in one select list, as SQL text through
// engine.parseSQL: the same aggregate twice, aggregates over the same column
// spelled with and without its qualifier, over different columns, and (join=1)
// over same-named columns of two joined tables. Every result column must be
// the true aggregate of its own argument.
//
//	join=0: t(g, v, w), FROM t;  join=1: t1(g, v), t2(g, v), FROM t1 JOIN t2 ON t1.g = t2.g
//	grp=1: the grouping column leads the select list and GROUP BY names it
//	items: number of aggregate items, each chosen from the menu
func verifH_C07_multi() {
	join := verifParam("join", 0) == 1
	grp := verifParam("grp", 0) == 1
	nItems := verifParam("items", 2)
	r1 := verifParam("rows", 2)
	r2 := verifParam("rows2", 1)
	lim := int32(verifParam("lim", 50))
	sym := func(tag string) int64 {
		x := verifI32(tag)
		verifAssume(verifAnd(x > -lim, x < lim))
		return int64(x)
	}
	var wide [][]int64
	var inc []bool
	var menu []verifAggItem
	var from, gcol string
	rm := &verifRM{tables: map[string]*verifStubTable{}}
	if !join {
		t := &verifStubTable{cols: []string{"g", "v", "w"}}
		for i := 0; i < r1; i++ {
			g, v, w := sym("g"), sym("v"), sym("w")
			t.rows = append(t.rows, []interface{}{g, v, w})
			wide = append(wide, []int64{g, v, w})
			inc = append(inc, true)
		}
		rm.tables["t"] = t
		menu = []verifAggItem{{"count(*)", 0, 0}, {"count(v)", 1, 1}, {"avg(v)", 2, 1}, {"avg(w)", 2, 2}, {"avg(t.v)", 2, 1}, {"count(t.w)", 1, 2}}
		from, gcol = "t", "g"
	} else {
		t1 := &verifStubTable{cols: []string{"g", "v"}}
		t2 := &verifStubTable{cols: []string{"g", "v"}}
		for i := 0; i < r1; i++ {
			t1.rows = append(t1.rows, []interface{}{sym("g1"), sym("v1")})
		}
		for j := 0; j < r2; j++ {
			t2.rows = append(t2.rows, []interface{}{sym("g2"), sym("v2")})
		}
		for _, a := range t1.rows {
			for _, b := range t2.rows {
				wide = append(wide, []int64{a[0].(int64), a[1].(int64), b[0].(int64), b[1].(int64)})
				inc = append(inc, a[0].(int64) == b[0].(int64))
			}
		}
		rm.tables["t1"], rm.tables["t2"] = t1, t2
		menu = []verifAggItem{{"count(*)", 0, 0}, {"avg(t1.v)", 2, 1}, {"avg(t2.v)", 2, 3}, {"count(t2.v)", 1, 3}, {"count(t1.v)", 1, 1}}
		from, gcol = "t1 JOIN t2 ON t1.g = t2.g", "t1.g"
	}
	var items []verifAggItem
	var texts []string
	if grp {
		texts = append(texts, gcol)
	}
	for k := 0; k < nItems; k++ {
		it := menu[verifChoice("item", len(menu))]
		items = append(items, it)
		texts = append(texts, it.text)
	}
	text := "SELECT " + strings.Join(texts, ", ") + " FROM " + from
	if grp {
		text += " GROUP BY " + gcol
	}
	verifTag("query", text)
	var mgr RelationManager = rm
	if verifParam("real", 0) == 1 {
		mgr = verifRealize(rm, []string{"t", "t1", "t2"})
	}
	stmt, perr := parseSQL(text)
	verifAssert(perr == nil, "parses")
	if perr != nil {
		return
	}
	sel, isSel := stmt.(sql.Select)
	verifAssert(isSel, "is-select")
	if !isSel {
		return
	}
	rows, _, err := EvaluateSelect(sel, mgr)
	verifAssert(err == nil, "select-ok")
	if err != nil {
		return
	}
	N := len(wide)
	same := func(i, j int) bool {
		if !grp {
			return true
		}
		return wide[i][0] == wide[j][0]
	}
	first := make([]bool, N)
	for i := 0; i < N; i++ {
		f := inc[i]
		for j := 0; j < i; j++ {
			f = verifAnd(f, !verifAnd(inc[j], same(i, j)))
		}
		first[i] = f
	}
	if grp {
		verifCheck(len(rows) == verifCount(first), "one-row-per-distinct-key")
	} else {
		verifCheck(len(rows) == 1, "one-row-without-group-by")
	}
	off := 0
	if grp {
		off = 1
	}
	for _, r := range rows {
		verifAssert(len(r.Vals) == off+len(items), "row-width")
		if len(r.Vals) != off+len(items) {
			return
		}
		match := false
		anyInc := verifCount(inc)
		if !grp {
			// no row joined: the single result row holds zeros
			ok := anyInc == 0
			for _, v := range r.Vals {
				z, isInt := v.(int64)
				ok = verifAnd(ok, verifAnd(isInt, z == 0))
			}
			match = ok
		}
		for i := 0; i < N; i++ {
			ok := first[i]
			if grp {
				g, isInt := r.Vals[0].(int64)
				ok = verifAnd(ok, verifAnd(isInt, g == wide[i][0]))
			}
			var member []bool
			for j := 0; j < N; j++ {
				member = append(member, verifAnd(inc[j], same(i, j)))
			}
			size := verifCount(member)
			for k, it := range items {
				x, isInt := r.Vals[off+k].(int64)
				ok = verifAnd(ok, isInt)
				switch it.kind {
				case 0, 1:
					ok = verifAnd(ok, x == int64(size))
				default:
					sum := int64(0)
					for j := 0; j < N; j++ {
						sum += verifSelI64(member[j], wide[j][it.col], 0)
					}
					avgOK := false
					for n := 1; n <= N; n++ {
						avgOK = verifOr(avgOK, verifAnd(size == n, verifAvgOK(x, sum, n)))
					}
					ok = verifAnd(ok, avgOK)
				}
			}
			match = verifOr(match, ok)
		}
		verifCheck(match, "every-column-is-the-true-aggregate-of-its-argument")
	}
	verifReach("end")
}

func init() {
	verifRegister("C07_big", verifH_C07_big)
}

// H07-big: AVG over two rows whose values range over all of BIGINT (the other
// aggregate harnesses keep |v| below 1000). The exact mean of two 64-bit values
// is computed without overflow from their halves: a = 2*ah + al, b = 2*bh + bl,
// mean = ah + bh + (al+bl)/2. Only values beyond +-2^52 are considered here
// (at least one of the two).
func verifH_C07_big() {
	a, b := verifI64("a"), verifI64("b")
	const lim = int64(1) << 52
	small := verifAnd(verifAnd(a > -lim, a < lim), verifAnd(b > -lim, b < lim))
	// values within +-2^52 are the other harnesses' range (|v| < 1000 is decided
	// there; the floating-point query over the whole +-2^52 range does not finish
	// within the solver's time limit and is not asked here)
	verifAssume(!small)
	verifTag("magnitude", "beyond-2^52")
	tbl := &verifStubTable{cols: []string{"v"}, rows: [][]interface{}{{a}, {b}}}
	rm := &verifRM{tables: map[string]*verifStubTable{"t": tbl}}
	stmt, perr := parseSQL("SELECT avg(v), count(v) FROM t")
	verifAssert(perr == nil, "parses")
	if perr != nil {
		return
	}
	rows, _, err := EvaluateSelect(stmt.(sql.Select), rm)
	verifAssert(err == nil, "select-ok")
	if err != nil {
		return
	}
	verifAssert(len(rows) == 1 && len(rows[0].Vals) == 2, "one-row")
	if len(rows) != 1 || len(rows[0].Vals) != 2 {
		return
	}
	A, isInt := rows[0].Vals[0].(int64)
	n, isInt2 := rows[0].Vals[1].(int64)
	verifAssert(isInt && isInt2 && n == 2, "count")
	ah, bh := a>>1, b>>1
	al, bl := a&1, b&1
	m := ah + bh
	half := al + bl // 0: mean = m; 1: mean = m + 1/2; 2: mean = m + 1
	ok := verifOr(verifAnd(half == 0, A == m), verifOr(verifAnd(half == 1, verifOr(A == m, A == m+1)), verifAnd(half == 2, A == m+1)))
	verifAssert(ok, "avg-is-the-rounded-mean")
	verifReach("end")
}
