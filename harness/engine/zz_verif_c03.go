//go:build verif

package engine

import (
	"fmt"

	"github.com/mk6i/mkdb/storage"
)

func init() {
	verifRegister("C03_hist", verifH_C03_hist)
}



// H03-hist: prefix, then `suffix`-1 free statements (optionally followed by a
// flush of the page cache), then a last INSERT/UPDATE/
// DELETE whose log append is interrupted before one of its write/sync calls.
// After recovery (image = all written bytes, or the log cut back to the last
// fsync) the database starts, each table equals the state before the statement
// plus the first j row operations for some j, and a further statement works.
func verifH_C03_hist() {
	sc := verifParam("prefix", 1)
	d := verifParam("suffix", 1)
	slen := verifParam("slen", 1)
	rs, db := verifPrefixDB(sc, 0, verifParam("warm", 0) == 1)
	// the earlier statements' log appends are fsynced: a native run learns the
	// durable length of the log from the same hook the interrupted statement uses
	// (the engine's file-system model tracks fsync by itself)
	storage.VerifPoint = func(ev string, off uint64) {
		if ev == "wal.synced" {
			verifFSMarkSynced("data/db/wal")
		}
	}
	for i := 0; i < d-1; i++ {
		st := verifFreeStmt(db, fmt.Sprintf("s%d", i), slen, 4)
		verifAssert(st.run(rs) == nil, "statement-ok")
		st.apply(db)
	}
	storage.VerifPoint = nil
	if verifParam("preflush", 0) == 1 {
		// the page cache is flushed (timer) between the earlier statements and the interrupted one
		verifAssert(storage.VerifFlush(rs) == nil, "flush-ok")
		verifTag("preflush", "yes")
	}
	// the interrupted statement: kinds 0..3 (no CREATE TABLE: it is not logged)
	var st verifStmt
	if lk := verifParam("lastkind", -1); lk >= 0 {
		st = verifStmtOfKind(db, "last", slen, lk)
	} else {
		st = verifFreeStmt(db, "last", slen, 4)
	}
	verifTag("stmt", st.kind)
	rootBefore := storage.VerifTableRoot(rs, st.table)
	crashed, at := verifRunWithCrash(
		func(ev string) bool { return ev == "wal.len" || ev == "wal.body" || ev == "wal.sync" },
		func() { st.run(rs) })
	if !crashed {
		// no crash point taken: that is C02's case
		verifReach("ran-to-completion")
		return
	}
	verifTag("at", at)
	// did the statement move the table's root (in memory) before it died?
	if storage.VerifTableRoot(rs, st.table) != rootBefore {
		verifTag("rootmove", "yes")
	} else {
		verifTag("rootmove", "no")
	}
	cut := verifChoice("cut-to-fsync", 2) == 1
	storage.VerifAbandon(rs)
	if cut {
		verifFSCutToSynced("data/db/wal")
		verifTag("image", "cut-at-last-fsync")
	} else {
		verifTag("image", "all-written")
	}
	err := storage.InitStorage()
	verifAssert(err == nil, "recovery-ok")
	if err != nil {
		return
	}
	rs2 := verifOpenDB(0)
	// some prefix of the statement's row operations
	nops := st.rowOps(db)
	var chosen *verifDB
	for j := 0; j <= nops; j++ {
		cand := db.clone()
		st.applyN(cand, j)
		all := true
		for _, t := range cand.tables {
			all = verifAnd(all, verifTableMatches(rs2, t))
		}
		if all {
			chosen = cand
			verifTag("j", fmt.Sprint(j))
			break
		}
	}
	verifAssert(chosen != nil, "row-prefix-state")
	if chosen == nil {
		return
	}
	verifCheckDB(rs2, chosen, "rec/")
	// statements after the recovery behave as on an uncrashed database in that state
	more := verifGenInsert(chosen.tables[0], 1, "m", slen, false)
	verifAssert(more.run(rs2) == nil, "cont/statement-ok")
	more.apply(chosen)
	verifCheckDB(rs2, chosen, "cont/")
	// ... and survive another restart
	rs3 := verifRecover(rs2, "cont2/")
	if rs3 != nil {
		verifCheckDB(rs3, chosen, "cont2/")
	}
	verifReach("end")
}
