//go:build verif

package engine

import (
	"errors"
	"fmt"

	"github.com/mk6i/mkdb/sql"
	"github.com/mk6i/mkdb/storage"
)

func init() {
	verifRegister("C13_flusher", verifH_C13_flusher)
}

// H13: a database opened exactly as the console does (flush timer on), one
// statement of each kind with symbolic values, and the timer firing at a
// chosen point of the statement (at most `preempts` times): at any page
// modification and at any step of the log append. Checked:
//   (a) lock discipline - every page modification by the session happens with
//       the store's lock held, every page/header write by the flusher with the
//       lock held exclusively;
//   (b) no page or header reaches the data file between the statement's first
//       page modification and the end of its log append.
func verifH_C13_flusher() {
	sc := verifParam("prefix", 1)
	kind := verifParam("stmt", 0) // 0 insert, 1 delete, 2 update, 3 insert 2 rows, 4 create table, 5 select
	preempts := verifParam("preempts", 1)

	// build the prefix with the timer off, then reopen like the console does
	rs0, db := verifPrefixDB(sc, 0, false)
	storage.VerifAbandon(rs0)
	rs, err := storage.OpenRelation("db", true)
	verifAssert(err == nil, "open")
	if err != nil {
		return
	}
	// cache=n: a page cache of n entries, so that one statement can fill it with
	// dirty pages (then the statement may be refused with ErrLRUCacheFull, but
	// nothing may reach the data file before its log append either)
	smallCache := verifParam("cache", 0)
	if smallCache > 0 {
		storage.VerifSetCacheSize(rs, smallCache)
	}
	lock := storage.VerifStoreLock(rs)
	myTicker := verifNumTickers() - 1

	var stmt verifStmt
	switch kind {
	case 4:
		stmt = verifGenCreate("newt")
	case 5:
		t := db.tables[0]
		stmt = verifStmt{kind: "select", table: t.name,
			run: func(rm RelationManager) error {
				_, _, err := EvaluateSelect(sql.Select{
					SelectList:      sql.SelectList{{ValueExpressionPrimary: sql.Asterisk{}}},
					TableExpression: sql.TableExpression{FromClause: sql.FromClause{sql.TableName{Name: t.name}}},
				}, rm)
				return err
			},
			apply: func(db *verifDB) {}}
	case 7:
		// one INSERT of many rows (bulk=n, default 130): a long statement with hundreds of page changes before its log append
		t := db.tables[0]
		stmt = verifConcreteInsert(t, 1000, verifParam("bulk", 130))
	case 6:
		// a join: the second table is fetched long after the statement took the lock
		t, u := db.tables[0], db.tables[len(db.tables)-1]
		stmt = verifStmt{kind: "join", table: t.name,
			run: func(rm RelationManager) error {
				_, _, err := EvaluateSelect(sql.Select{
					SelectList: sql.SelectList{{ValueExpressionPrimary: sql.Asterisk{}}},
					TableExpression: sql.TableExpression{FromClause: sql.FromClause{sql.QualifiedJoin{
						LHS: sql.TableName{Name: t.name, CorrelationName: "l"}, JoinType: sql.INNER_JOIN, RHS: sql.TableName{Name: u.name, CorrelationName: "r"},
						JoinCondition: sql.Predicate{ComparisonPredicate: sql.ComparisonPredicate{LHS: sql.ColumnReference{Qualifier: "l", ColumnName: "a"}, CompOp: sql.EQ, RHS: sql.ColumnReference{Qualifier: "r", ColumnName: "a"}}}}}},
				}, rm)
				return err
			},
			apply: func(db *verifDB) {}}
	default:
		stmt = verifStmtOfKind(db, "s", 1, kind)
	}
	verifTag("stmt", stmt.kind)
	// callticks=1: the timer may also fire at the entry of every relation service
	// call the statement makes (not only where pages change or the log is written)
	callTicks := verifParam("callticks", 0) == 1

	inStatement, dirtied, logDone, walSynced, wroteAfterLog := false, false, false, false, false
	ticks := 0
	storage.VerifPoint = func(ev string, off uint64) {
		g := verifGoroutine()
		switch ev {
		case "page.dirty":
			if g == 0 && inStatement {
				verifAssert(verifLockHeld(lock) >= 1, "session-modifies-pages-under-the-lock")
				dirtied = true
				if logDone {
					// the statement goes on changing pages after a log append: that append did not complete it,
					// and a write that fell after it fell inside the statement
					verifAssert(!wroteAfterLog, "no-write-inside-a-statement")
					logDone, walSynced = false, false
				}
			}
			if g != 0 {
				verifAssert(verifLockHeld(lock) == 2, "flusher-holds-the-lock-exclusively")
			}
		case "page.write", "header.write":
			if g != 0 {
				verifAssert(verifLockHeld(lock) == 2, "flusher-holds-the-lock-exclusively")
			}
			// whoever writes: nothing reaches the data file between the statement's
			// first change and the end of its log append
			verifAssert(!(inStatement && dirtied && !logDone), "no-write-inside-a-statement")
			if inStatement && dirtied && logDone && g != 0 {
				wroteAfterLog = true
			}
		case "rs.end":
			// the statement is about to release the store lock: its changes and its log append are complete
			// (set here rather than after the statement returns: natively the flusher may get the lock
			// between the release and the return)
			// only if the log append has happened: a statement that releases the lock
			// before appending its records has not completed it
			if g == 0 && inStatement && (walSynced || !dirtied) {
				logDone = true
			}
		case "wal.synced":
			if g == 0 && inStatement {
				walSynced = true
			}
		case "ddl.changes.done":
			// CREATE TABLE is not logged: its changes are complete here, before its own flush
			if g == 0 {
				logDone = true
			}
		}
		// the timer may fire here (only the session goroutine is preempted); with
		// callticks=1 also at the entry of every relation service call of the statement
		isCall := len(ev) > 3 && ev[:3] == "rs."
		if g == 0 && inStatement && ticks < preempts && ev != "page.write" && ev != "header.write" && (callTicks || !isCall) {
			if verifChoice("tick-here", 2) == 1 {
				ticks++
				verifTag("tick-at", ev)
				verifTick(myTicker)
			}
		}
	}
	// every use of the page cache and of the store's bookkeeping is an access to
	// state shared with the flusher: it must happen under the store's lock
	// (shared for the session, exclusive for the flusher)
	const st = "(*github.com/mk6i/mkdb/storage."
	const sv = st + "RelationService)."
	verifWatchCalls([]string{
		st + "LRUCache).get", st + "LRUCache).set",
		st + "fileStore).fetch", st + "fileStore).append", st + "fileStore).update", st + "fileStore).setCache",
		st + "fileStore).incrLSN", st + "fileStore).incrementLastKey", st + "fileStore).setPageTableRoot", st + "fileStore).save",
		sv + "Fetch", sv + "Insert", sv + "Update", sv + "MarkDeleted", sv + "FlushWALBatch", sv + "EndTxn", sv + "CreateTable",
	}, func(fn string) {
		if !inStatement {
			return
		}
		isService := len(fn) > len(sv) && fn[:len(sv)] == sv
		if !isService {
			if verifGoroutine() == 0 {
				verifAssert(verifLockHeld(lock) >= 1, "session-touches-cache-under-the-lock")
			} else {
				verifAssert(verifLockHeld(lock) == 2, "flusher-holds-the-lock-exclusively")
			}
		}
	})
	inStatement = true
	err = stmt.run(rs)
	logDone = true
	inStatement = false
	storage.VerifPoint = nil
	verifWatchCalls(nil, nil)
	if smallCache > 0 && err != nil {
		verifAssert(errors.Is(err, storage.ErrLRUCacheFull), "refused-only-for-a-full-cache")
		verifReach("refused-cache-full")
		return
	}
	verifAssert(err == nil, "statement-ok")
	// let the flusher finish whatever it was waiting for, then a regular tick
	verifYield()
	verifTick(myTicker)
	if err == nil {
		stmt.apply(db)
	}
	verifCheckDB(rs, db, "after/")
	verifAssert(rs.Close() == nil, "close-ok")
	verifReach("end")
	_ = fmt.Sprint
}
