//go:build verif

package engine

import (
	"strings"
	"fmt"
	"math"

	"github.com/mk6i/mkdb/sql"
	"github.com/mk6i/mkdb/storage"
)

func init() {
	verifRegister("C14_errors", verifH_C14_errors)
}

// H14: a statement that returns an error changes nothing, immediately and after a restart.
//
// stmt 0: INSERT of n rows whose k-th row (every k) is invalid: bad = 0 type mismatch,
//         1 INT out of 32-bit range (symbolic), 2 row over 400 bytes, 3 wrong value count
// stmt 1: UPDATE whose new value is invalid (bad 0,1,2) for rows selected by a symbolic WHERE
// stmt 2: INSERT / UPDATE / DELETE on an unknown table
// stmt 3: CREATE TABLE of an existing table
// stmt 4: DELETE / UPDATE whose WHERE cannot be evaluated on a later row (NULL under >=)
// stmt 5: UPDATE whose new value fits some rows and not others (row sizes differ)
// stmt 6: CREATE TABLE whose k-th column is refused by the catalog
func verifH_C14_errors() {
	sc := verifParam("prefix", 1)
	stmtKind := verifParam("stmt", 0)
	n := verifParam("n", 2)
	bad := verifParam("bad", 0)
	rs, db := verifPrefixDB(sc, 0, verifParam("warm", 0) == 1)
	t := db.tables[0]

	badRow := func(tag string) []interface{} {
		r := verifSymRow(tag, 1)
		switch bad {
		case 0:
			r[1] = verifString(tag+"wrong", 1) // a string for the BIGINT column
		case 1:
			x := verifI64(tag + "big")
			verifAssume(verifOr(x > math.MaxInt32, x < math.MinInt32))
			r[0] = x
		case 2:
			r[2] = verifLongString(tag+"long", 380) // 21 + 380 > 400
		default:
			r = r[:3]
		}
		return r
	}

	var err error
	switch stmtKind {
	case 0:
		k := verifChoice("badrow", n)
		verifTag("badrow", fmt.Sprint(k+1))
		var rows [][]interface{}
		for i := 0; i < n; i++ {
			if i == k {
				rows = append(rows, badRow(fmt.Sprintf("r%d", i)))
			} else {
				rows = append(rows, verifSymRow(fmt.Sprintf("r%d", i), 1))
			}
		}
		var cols []string
		if verifChoice("collist", 2) == 1 && bad != 3 {
			cols = verifColNames(t.cols)
		}
		_, err = EvaluateInsert(verifInsertStmt(t.name, cols, rows), rs)
		verifTag("stmt", "insert")
	case 1:
		op := verifCompOps[verifChoice("op", verifParam("nops", len(verifCompOps)))]
		x := int64(verifI32("x"))
		set := []sql.SetClause{{ObjectColumn: "b", UpdateSource: verifI64("nb")}}
		switch bad {
		case 0:
			set = append(set, sql.SetClause{ObjectColumn: "f", UpdateSource: verifI64("wrong")})
		case 1:
			v := verifI64("big")
			verifAssume(verifOr(v > math.MaxInt32, v < math.MinInt32))
			set = append(set, sql.SetClause{ObjectColumn: "a", UpdateSource: v})
		default:
			// too long for every row, also for rows whose other columns are NULL (12 + 395 > 400)
			set = append(set, sql.SetClause{ObjectColumn: "s", UpdateSource: verifLongString("long", 395)})
		}
		err = EvaluateUpdate(sql.UpdateStatementSearched{TableName: t.name, Set: set, Where: verifWhere("a", op, x)}, rs)
		verifTag("stmt", "update")
		if err == nil {
			// no row matched: nothing to refuse
			hit := false
			for _, r := range t.rows {
				hit = verifOr(hit, verifCmpInt(op, r[0].(int64), x))
			}
			verifAssert(!hit, "invalid-update-refused")
			verifReach("no-row-matched")
			return
		}
	case 2:
		// a table that does not exist under the name used: an unrelated name, a
		// longer name, or the name of an existing table in another case (table
		// names are case-sensitive today; should another spelling ever be
		// accepted, the statement is outside this clause)
		name := []string{"nosuch", t.name + t.name, strings.ToUpper(t.name)}[verifChoice("name", 3)]
		switch verifChoice("which", 3) {
		case 0:
			_, err = EvaluateInsert(verifInsertStmt(name, nil, [][]interface{}{verifSymRow("r", 1)}), rs)
		case 1:
			err = EvaluateUpdate(sql.UpdateStatementSearched{TableName: name, Set: []sql.SetClause{{ObjectColumn: "b", UpdateSource: verifI64("nb")}}}, rs)
		default:
			_, err = EvaluateDelete(sql.DeleteStatementSearched{TableName: name}, rs)
		}
		verifTag("stmt", "unknown-table")
		if err == nil && name == strings.ToUpper(t.name) {
			verifTag("outside", "other-spelling-accepted")
			return
		}
	case 7:
		// a valid but large statement (every row rewritten to the largest accepted size:
		// a log append of several KB). It should succeed; if it does return an error,
		// the clause applies to it like to any other
		st := verifGenUpdate(t, "big", 379)
		err = st.run(rs)
		verifTag("stmt", "large-valid-update")
		if err == nil {
			verifTag("outcome", "accepted")
			st.apply(db)
			verifCheckDB(rs, db, "accepted/")
			return
		}
	case 3:
		err = EvaluateCreateTable(verifCreateStmt(t.name, verifStdCols[:2]), rs)
		verifTag("stmt", "duplicate-create")
	case 4, 5:
		// rows of different shapes: one row inserted through a partial column list
		// (a, s, f NULL) at position `nullpos` among normal rows
		nullpos := verifChoice("nullpos", 3)
		for i := 0; i < 3; i++ {
			var st verifStmt
			if i == nullpos {
				nb := verifI64("nullrow-b")
				ins := verifInsertStmt(t.name, []string{"b"}, [][]interface{}{{nb}})
				st = verifStmt{kind: "insert", table: t.name,
					run: func(rm RelationManager) error { _, err := EvaluateInsert(ins, rm); return err },
					apply: func(db *verifDB) {
						mt := db.table(t.name)
						mt.rows = append(mt.rows, []interface{}{nil, nb, nil, nil})
					}}
			} else {
				st = verifGenInsert(t, 1, fmt.Sprintf("n%d", i), 1, false)
			}
			verifMustRun(rs, db, st)
		}
		verifTag("nullpos", fmt.Sprint(nullpos+1))
		if stmtKind == 4 {
			// a WHERE clause that cannot be evaluated on the NULL row (ordering comparison)
			x := int64(verifI32("x"))
			w := verifWhere("a", sql.GTE, x)
			if verifChoice("which", 2) == 0 {
				_, err = EvaluateDelete(sql.DeleteStatementSearched{TableName: t.name, WhereClause: w}, rs)
				verifTag("stmt", "delete-where-error")
			} else {
				err = EvaluateUpdate(sql.UpdateStatementSearched{TableName: t.name, Set: []sql.SetClause{{ObjectColumn: "b", UpdateSource: verifI64("nb")}}, Where: w}, rs)
				verifTag("stmt", "update-where-error")
			}
		} else {
			// a new value that fits the short (NULL-bearing) row but not the full rows
			err = EvaluateUpdate(sql.UpdateStatementSearched{TableName: t.name,
				Set: []sql.SetClause{{ObjectColumn: "s", UpdateSource: verifLongString("long", 381)}}}, rs)
			verifTag("stmt", "update-size-depends-on-row")
		}
	default:
		if bad == 1 {
			// CREATE TABLE whose k-th column makes a catalog row of 396..407 bytes
			// (20 + the two names; the limit is 400): either it is created whole or
			// it is refused and nothing changed
			k := verifChoice("badcol", 2)
			total := 376 + verifChoice("namelen", 12)
			cname := make([]byte, total-len("newt"))
			for i := range cname {
				cname[i] = 'c'
			}
			cols := []verifCol{{"a", storage.TypeInt}, {"b", storage.TypeBigInt}}
			cols[k].name = string(cname)
			err = EvaluateCreateTable(verifCreateStmt("newt", cols), rs)
			verifTag("stmt", "create-long-names")
			verifTag("badcol", fmt.Sprint(k+1))
			if err == nil {
				db.tables = append(db.tables, &verifTable{name: "newt", cols: cols})
				verifCheckDB(rs, db, "created/")
				verifReach("created")
				return
			}
			break
		}
		// CREATE TABLE whose k-th column definition is refused by the catalog (length beyond 32 bits)
		k := verifChoice("badcol", 2)
		ct := verifCreateStmt("newt", verifStdCols[:2])
		big := verifI64("len")
		verifAssume(big > math.MaxInt32)
		ct.Elements[k].ColumnDefinition.DataType = sql.CharacterStringType{Len: big, Type: sql.T_VARCHAR}
		err = EvaluateCreateTable(ct, rs)
		verifTag("stmt", "create-bad-column")
		verifTag("badcol", fmt.Sprint(k+1))
	}
	verifAssert(err != nil, "invalid-statement-refused")
	if err == nil {
		return
	}
	if stmtKind == 6 {
		_, _, ferr := rs.Fetch("newt")
		verifAssert(ferr != nil, "refused-table-does-not-exist")
		// the name is still free
		verifAssert(EvaluateCreateTable(verifCreateStmt("newt", verifStdCols[:1]), rs) == nil, "refused-table-name-still-free")
		db.tables = append(db.tables, &verifTable{name: "newt", cols: verifStdCols[:1]})
	}
	// nothing changed ...
	verifCheckDB(rs, db, "after/")
	// ... also after a page flush, a crash and recovery
	verifAssert(storage.VerifFlush(rs) == nil, "flush-ok")
	rs2 := verifRecover(rs, "restart/")
	if rs2 == nil {
		return
	}
	verifCheckDB(rs2, db, "restart/")
	// and the next valid statement behaves as on the state before
	more := verifGenInsert(t, 1, "m", 1, false)
	verifAssert(more.run(rs2) == nil, "next/statement-ok")
	more.apply(db)
	verifCheckDB(rs2, db, "next/")
	verifReach("end")
}

