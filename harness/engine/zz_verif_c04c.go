//go:build verif

package engine

import (
	"fmt"

	"github.com/mk6i/mkdb/sql"
	"github.com/mk6i/mkdb/storage"
)

func init() {
	verifRegister("C04_live", verifH_C04_live)
}

// H04-live: the timer's flush against a live statement, then process death at
// the start of that flush. A database opened as the console opens it (timer
// on); one statement (CREATE TABLE, UPDATE, DELETE, INSERT by parameter) during
// which the timer may fire at any hook point (the flusher then waits for the
// statement); once the statement has been acknowledged the flusher runs, and
// the process dies immediately before the first page or header write of a
// flush by the flusher (by choice: the flush that was waiting, or the next
// regular one). Nothing of that flush is on disk, so the image holds exactly
// what the statement's own durability steps wrote: after recovery every
// acknowledged statement - CREATE TABLE included, which is not logged and
// relies on its own flush - must be there.
func verifH_C04_live() {
	sc := verifParam("prefix", 1)
	kind := verifParam("stmt", 4)
	rs0, db := verifPrefixDB(sc, 0, false)
	storage.VerifAbandon(rs0)
	rs, err := storage.OpenRelation("db", true)
	verifAssert(err == nil, "open")
	if err != nil {
		return
	}
	myTicker := verifNumTickers() - 1
	var stmt verifStmt
	if kind == 4 {
		stmt = verifGenCreate("newt")
	} else {
		stmt = verifStmtOfKind(db, "s", 1, kind)
	}
	verifTag("stmt", stmt.kind)
	inStatement, acked := false, false
	ticks, img := 0, -1
	storage.VerifPoint = func(ev string, off uint64) {
		g := verifGoroutine()
		if ev == "wal.synced" {
			verifFSMarkSynced("data/db/wal")
		}
		isWrite := ev == "page.write" || ev == "header.write"
		if g == 0 && inStatement && ticks < 1 && !isWrite {
			if verifChoice("tick-here", 2) == 1 {
				ticks++
				verifTag("tick-at", ev)
				verifTick(myTicker)
			}
		}
		if g != 0 && isWrite && acked && img < 0 {
			// the flusher is about to write the first page (or the header) of a flush: the process dies here
			img = verifFSSnapshot()
			verifTag("died-before", ev)
		}
	}
	inStatement = true
	err = stmt.run(rs)
	inStatement = false
	verifAssert(err == nil, "statement-ok")
	if err != nil {
		storage.VerifPoint = nil
		return
	}
	stmt.apply(db)
	acked = true
	// the flusher that was waiting (if the timer fired) runs now; otherwise a regular tick
	verifYield()
	if img < 0 {
		verifTick(myTicker)
		verifYield()
	}
	storage.VerifPoint = nil
	if img < 0 {
		// no flush by the flusher had anything to write
		verifTag("outcome", "nothing-to-flush")
		rs.Close()
		return
	}
	storage.VerifAbandon(rs)
	verifFSRestore(img)
	verifAssert(storage.InitStorage() == nil, "recovery-ok")
	rs2 := verifOpenDB(0)
	verifCheckDB(rs2, db, "rec/")
	more := verifGenInsert(db.tables[len(db.tables)-1], 1, "m", 1, false)
	verifAssert(more.run(rs2) == nil, "cont/statement-ok")
	more.apply(db)
	verifCheckDB(rs2, db, "cont/")
	verifReach("end")
	_ = fmt.Sprint
	_ = sql.EQ
}
