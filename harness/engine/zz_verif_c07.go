//go:build verif

package engine

import (
	"github.com/mk6i/mkdb/sql"
)

func init() {
	verifRegister("C07_aggr", verifH_C07_aggr)
	verifRegister("C07_strkeys", verifH_C07_strkeys)
}

// H07-strkeys: SELECT g, COUNT(*), COUNT(g) FROM t GROUP BY g (and the
// two-column variant g, h) where g is a varchar column whose cells are NULL,
// the empty string or a symbolic 1-byte string by choice, h an int: NULL, ''
// and every other value are different groups.
func verifH_C07_strkeys() {
	R := verifParam("rows", 2)
	two := verifParam("two", 0) == 1
	tbl := &verifStubTable{cols: []string{"g", "h"}}
	for i := 0; i < R; i++ {
		var g interface{}
		switch verifChoice("gkind", 3) {
		case 0:
			g = nil
		case 1:
			g = ""
		default:
			g = verifString("g", 1)
		}
		h := verifI32("h")
		verifAssume(verifAnd(h > -20, h < 20))
		tbl.rows = append(tbl.rows, []interface{}{g, int64(h)})
	}
	rm := &verifRM{tables: map[string]*verifStubTable{"t": tbl}}
	col := func(n string) sql.ColumnReference { return sql.ColumnReference{ColumnName: n} }
	q := sql.Select{TableExpression: sql.TableExpression{FromClause: sql.FromClause{sql.TableName{Name: "t"}}}}
	q.SelectList = sql.SelectList{{ValueExpressionPrimary: col("g")}}
	q.GroupByClause = []sql.ColumnReference{col("g")}
	if two {
		q.SelectList = append(q.SelectList, sql.DerivedColumn{ValueExpressionPrimary: col("h")})
		q.GroupByClause = append(q.GroupByClause, col("h"))
	}
	pCnt := len(q.SelectList)
	q.SelectList = append(q.SelectList, sql.DerivedColumn{ValueExpressionPrimary: sql.Count{}}, sql.DerivedColumn{ValueExpressionPrimary: sql.Count{ValueExpression: col("g")}})
	rows, _, err := EvaluateSelect(q, rm)
	verifAssert(err == nil, "select-ok")
	if err != nil {
		return
	}
	same := func(a, b []interface{}) bool {
		s := verifSame(a[0], b[0])
		if two {
			s = verifAnd(s, verifSame(a[1], b[1]))
		}
		return s
	}
	first := make([]bool, R)
	for i := 0; i < R; i++ {
		f := true
		for j := 0; j < i; j++ {
			f = verifAnd(f, !same(tbl.rows[i], tbl.rows[j]))
		}
		first[i] = f
	}
	verifCheck(len(rows) == verifCount(first), "one-row-per-distinct-key")
	for _, r := range rows {
		verifAssert(len(r.Vals) == pCnt+2, "row-width")
		match := false
		for i := 0; i < R; i++ {
			var member []bool
			for j := 0; j < R; j++ {
				member = append(member, same(tbl.rows[i], tbl.rows[j]))
			}
			size := verifCount(member)
			nonNull := size
			if tbl.rows[i][0] == nil {
				nonNull = 0
			}
			ok := verifAnd(first[i], verifSame(r.Vals[0], tbl.rows[i][0]))
			if two {
				ok = verifAnd(ok, verifSame(r.Vals[1], tbl.rows[i][1]))
			}
			c, isInt := r.Vals[pCnt].(int64)
			ok = verifAnd(ok, verifAnd(isInt, c == int64(size)))
			cv, isInt2 := r.Vals[pCnt+1].(int64)
			ok = verifAnd(ok, verifAnd(isInt2, cv == int64(nonNull)))
			match = verifOr(match, ok)
		}
		verifCheck(match, "row-has-true-keys-and-counts")
	}
	verifReach("end")
}


// H07: table t(g1, g2, v) with R symbolic rows (|values| < lim; v nullable by
// choice), aggregate queries with and without GROUP BY; one result row per
// distinct key combination with true COUNT(*), COUNT(v), AVG(v).
//
// form 0: SELECT COUNT(*), COUNT(v), AVG(v) FROM t                  (no GROUP BY)
// form 1: SELECT g1, COUNT(*), COUNT(v), AVG(v) FROM t GROUP BY g1
// form 2: SELECT COUNT(*), g1, AVG(v) FROM t GROUP BY g1              (grouping column not first)
// form 3: SELECT COUNT(*), g1 x FROM t GROUP BY x                     (by alias)
// form 4: SELECT COUNT(*), t.g1 FROM t GROUP BY t.g1                  (by qualifier)
// form 5: SELECT g1, g2, COUNT(*), AVG(v) FROM t GROUP BY g1, g2
// form 6: SELECT AVG(v), g2, COUNT(v), g1 FROM t GROUP BY g1, g2
// form 7: form 1 on top of WHERE g2 > lit
// form 8: SELECT g1, COUNT(*), COUNT(v) FROM t GROUP BY g1   with NULLs in v (nulls=1)
// form 9: text  SELECT g1 AS <x|g2|v>, g2, count(*) FROM t GROUP BY g1, g2   (alias colliding with a column name)
// form 10: the same with every column qualified (t.g1 ...)
func verifH_C07_aggr() {
	R := verifParam("rows", 2)
	form := verifParam("form", 0)
	lim := int32(verifParam("lim", 1000))
	nullable := verifParam("nulls", 0) == 1
	hasAvg := form != 3 && form != 4 && form != 8 && form < 9
	verifTag("rows", string(rune('0'+R)))

	tbl := &verifStubTable{cols: []string{"g1", "g2", "v"}}
	isNull := make([]bool, R)
	for i := 0; i < R; i++ {
		g1, g2, v := verifI32("g1"), verifI32("g2"), verifI32("v")
		verifAssume(verifAnd(verifAnd(g1 > -lim, g1 < lim), verifAnd(g2 > -lim, g2 < lim)))
		verifAssume(verifAnd(v > -lim, v < lim))
		var vv interface{} = int64(v)
		if nullable && !hasAvg && verifChoice("null", 2) == 1 {
			vv, isNull[i] = nil, true
		}
		tbl.rows = append(tbl.rows, []interface{}{int64(g1), int64(g2), vv})
	}
	rm := &verifRM{tables: map[string]*verifStubTable{"t": tbl}}

	col := func(q, n string) sql.ColumnReference { return sql.ColumnReference{Qualifier: q, ColumnName: n} }
	cnt := sql.DerivedColumn{ValueExpressionPrimary: sql.Count{}}
	cntv := sql.DerivedColumn{ValueExpressionPrimary: sql.Count{ValueExpression: col("", "v")}}
	avg := sql.DerivedColumn{ValueExpressionPrimary: sql.Average{ValueExpression: col("", "v")}}
	dc := func(c sql.ColumnReference, alias string) sql.DerivedColumn {
		return sql.DerivedColumn{ValueExpressionPrimary: c, AsClause: alias}
	}
	q := sql.Select{TableExpression: sql.TableExpression{FromClause: sql.FromClause{sql.TableName{Name: "t"}}}}
	// positions of the pieces in the result row (-1: absent)
	pG1, pG2, pCnt, pCntV, pAvg := -1, -1, -1, -1, -1
	ngroup := 0
	switch form {
	case 0:
		q.SelectList = sql.SelectList{cnt, cntv, avg}
		pCnt, pCntV, pAvg = 0, 1, 2
	case 1, 7:
		q.SelectList = sql.SelectList{dc(col("", "g1"), ""), cnt, cntv, avg}
		q.GroupByClause = []sql.ColumnReference{col("", "g1")}
		pG1, pCnt, pCntV, pAvg, ngroup = 0, 1, 2, 3, 1
	case 2:
		q.SelectList = sql.SelectList{cnt, dc(col("", "g1"), ""), avg}
		q.GroupByClause = []sql.ColumnReference{col("", "g1")}
		pCnt, pG1, pAvg, ngroup = 0, 1, 2, 1
	case 3:
		q.SelectList = sql.SelectList{cnt, dc(col("", "g1"), "x")}
		q.GroupByClause = []sql.ColumnReference{col("", "x")}
		pCnt, pG1, ngroup = 0, 1, 1
	case 4:
		q.SelectList = sql.SelectList{cnt, dc(col("t", "g1"), "")}
		q.GroupByClause = []sql.ColumnReference{col("t", "g1")}
		pCnt, pG1, ngroup = 0, 1, 1
	case 5:
		q.SelectList = sql.SelectList{dc(col("", "g1"), ""), dc(col("", "g2"), ""), cnt, avg}
		q.GroupByClause = []sql.ColumnReference{col("", "g1"), col("", "g2")}
		pG1, pG2, pCnt, pAvg, ngroup = 0, 1, 2, 3, 2
	case 8:
		q.SelectList = sql.SelectList{dc(col("", "g1"), ""), cnt, cntv}
		q.GroupByClause = []sql.ColumnReference{col("", "g1")}
		pG1, pCnt, pCntV, ngroup = 0, 1, 2, 1
	case 6:
		q.SelectList = sql.SelectList{avg, dc(col("", "g2"), ""), cntv, dc(col("", "g1"), "")}
		q.GroupByClause = []sql.ColumnReference{col("", "g1"), col("", "g2")}
		pAvg, pG2, pCntV, pG1, ngroup = 0, 1, 2, 3, 2
	case 9, 10:
		// as SQL text through the real scanner and parser (whose validation of the
		// GROUP BY list the executor relies on): the first column carries an alias
		// that is a fresh name, the name of the other grouping column, or the name
		// of a column that is not selected; form 10 qualifies every column. The
		// parser may refuse the statement (ambiguous column); if it accepts it the
		// groups must be the true ones.
		a := []string{"x", "g2", "v"}[verifChoice("alias", 3)]
		text := "SELECT g1 AS " + a + ", g2, count(*) FROM t GROUP BY g1, g2"
		if form == 10 {
			text = "SELECT t.g1 AS " + a + ", t.g2, count(*) FROM t GROUP BY t.g1, t.g2"
		}
		verifTag("alias", a)
		stmt, perr := parseSQL(text)
		if perr != nil {
			verifReach("refused-by-parser")
			return
		}
		sel, isSel := stmt.(sql.Select)
		verifAssert(isSel, "is-select")
		q = sel
		pG1, pG2, pCnt, ngroup = 0, 1, 2, 2
	}
	// WHERE for form 7
	keep := make([]bool, R)
	for i := range keep {
		keep[i] = true
	}
	if form == 7 {
		x := int64(verifI32("wlit"))
		q.WhereClause = sql.WhereClause{SearchCondition: sql.Predicate{ComparisonPredicate: sql.ComparisonPredicate{
			LHS: col("", "g2"), CompOp: sql.GT, RHS: x}}}
		for i, r := range tbl.rows {
			keep[i] = r[1].(int64) > x
		}
	}

	rows, fields, err := EvaluateSelect(q, rm)
	verifAssert(err == nil, "select-ok")
	if err != nil {
		return
	}
	verifAssert(len(fields) == len(q.SelectList), "header-width")

	// reference groups: row i opens a group iff it is kept and no earlier kept row has the same key
	sameKey := func(i, j int) bool {
		a, b := tbl.rows[i], tbl.rows[j]
		switch ngroup {
		case 0:
			return true
		case 1:
			return a[0].(int64) == b[0].(int64)
		default:
			return verifAnd(a[0].(int64) == b[0].(int64), a[1].(int64) == b[1].(int64))
		}
	}
	first := make([]bool, R)
	for i := 0; i < R; i++ {
		f := keep[i]
		for j := 0; j < i; j++ {
			f = verifAnd(f, !verifAnd(keep[j], sameKey(i, j)))
		}
		first[i] = f
	}
	ngroups := verifCount(first)
	anyKept := verifCount(keep)
	if ngroup == 0 {
		// one row for the whole input, all zeros when it is empty
		verifCheck(len(rows) == 1, "one-row-without-group-by")
	} else {
		verifCheck(len(rows) == ngroups, "one-row-per-distinct-key")
	}
	_ = anyKept
	// every result row is the true aggregate of some group
	for _, r := range rows {
		verifAssert(len(r.Vals) == len(q.SelectList), "row-width")
		if len(r.Vals) != len(q.SelectList) {
			return
		}
		match, matchNoAvg := false, false
		if ngroup == 0 && R == 0 {
			// empty input: zeros
			ok := true
			for _, v := range r.Vals {
				z, isInt := v.(int64)
				ok = verifAnd(ok, verifAnd(isInt, z == 0))
			}
			match, matchNoAvg = ok, ok
		}
		for i := 0; i < R; i++ {
			// members of the group opened by row i
			var member []bool
			var nonNull []bool
			sum := int64(0)
			for j := 0; j < R; j++ {
				m := verifAnd(keep[j], sameKey(i, j))
				member = append(member, m)
				nonNull = append(nonNull, verifAnd(m, !isNull[j]))
				if !isNull[j] {
					// add v_j when j is a member (no branch)
					vj := tbl.rows[j][2].(int64)
					sum += verifSelI64(m, vj, 0)
				}
			}
			size := verifCount(member)
			ok := first[i]
			if ngroup == 0 {
				ok = verifOr(first[i], i == 0) // without GROUP BY the single row stands for all rows, even if none is kept
			}
			if pG1 >= 0 {
				g, isInt := r.Vals[pG1].(int64)
				ok = verifAnd(ok, verifAnd(isInt, g == tbl.rows[i][0].(int64)))
			}
			if pG2 >= 0 {
				g, isInt := r.Vals[pG2].(int64)
				ok = verifAnd(ok, verifAnd(isInt, g == tbl.rows[i][1].(int64)))
			}
			if pCnt >= 0 {
				c, isInt := r.Vals[pCnt].(int64)
				ok = verifAnd(ok, verifAnd(isInt, c == int64(size)))
			}
			if pCntV >= 0 {
				c, isInt := r.Vals[pCntV].(int64)
				ok = verifAnd(ok, verifAnd(isInt, c == int64(verifCount(nonNull))))
			}
			matchNoAvg = verifOr(matchNoAvg, ok)
			if pAvg >= 0 {
				A, isInt := r.Vals[pAvg].(int64)
				ok = verifAnd(ok, isInt)
				// case split on the group size (the rounding test multiplies by it)
				avgOK := false
				for n := 1; n <= R; n++ {
					avgOK = verifOr(avgOK, verifAnd(size == n, verifAvgOK(A, sum, n)))
				}
				ok = verifAnd(ok, avgOK)
			}
			match = verifOr(match, ok)
		}
		// keys and counts first, then the same including AVG (separate ids so that
		// a finding about AVG's rounding does not hide grouping or counting errors)
		verifCheck(matchNoAvg, "row-has-true-keys-and-counts")
		if pAvg >= 0 {
			verifCheck(match, "avg-is-the-rounded-mean")
		}
	}
	// result keys pairwise distinct
	if ngroup > 0 {
		for i := range rows {
			for j := i + 1; j < len(rows); j++ {
				same := rows[i].Vals[pG1] == rows[j].Vals[pG1]
				if pG2 >= 0 {
					same = verifAnd(same, rows[i].Vals[pG2] == rows[j].Vals[pG2])
				}
				verifCheck(!same, "groups-distinct")
			}
		}
	}
	verifReach("end")
}
