//go:build verif

package engine

import "fmt"

func init() {
	verifRegister("C01_hist", verifH_C01_hist)
}

// H01-hist: concrete prefix scenario, then `suffix` free statements with
// symbolic values; after every statement SELECT * of every table and the
// catalog must equal the in-memory model.
func verifH_C01_hist() {
	sc := verifParam("prefix", 2)
	d := verifParam("suffix", 1)
	slen := verifParam("slen", 1)
	kinds := verifParam("kinds", 5)
	rs, db := verifPrefixDB(sc, 0, verifParam("warm", 0) == 1)
	verifCheckDB(rs, db, "pre/")
	hist := ""
	for i := 0; i < d; i++ {
		st := verifFreeStmt(db, fmt.Sprintf("s%d", i), slen, kinds)
		hist += st.kind + ","
		verifTag("stmts", hist)
		err := st.run(rs)
		verifAssert(err == nil, "statement-ok")
		if err != nil {
			return
		}
		st.apply(db)
		verifCheckDB(rs, db, "post/")
	}
	verifReach("end")
}
