//go:build verif

package engine

import (
	"fmt"
	"math"

	"github.com/mk6i/mkdb/sql"
	"github.com/mk6i/mkdb/storage"
)

func init() {
	verifRegister("C18_ast", verifH_C18_ast)
	verifRegister("C18_session", verifH_C18_session)
}

// verifMaybeNull returns v or NULL by choice.
func verifMaybeNull(tag string, v interface{}) interface{} {
	if verifChoice(tag+"null", 2) == 1 {
		return nil
	}
	return v
}

// H18-ast: type-confused but parseable statements against NULL-bearing rows of
// all four column types must return a result or an error - never panic or hang.
//
// q 0: SELECT AVG(col) / COUNT(col) / col with optional GROUP BY, col over all columns incl. missing ones
// q 1: SELECT * WHERE <operand> <op> <operand>, operands over columns of every type, literals of every type, NULL cells
// q 2: SELECT * ORDER BY col [, col2] over columns holding NULLs and values
// q 3: SELECT * LIMIT n OFFSET m with n, m anywhere in 0..MaxInt64
// q 4: UPDATE / DELETE with a type-confused WHERE; INSERT with wrong arity (through the stub manager)
// q 5: names: missing table, missing column, ambiguous column in a join, duplicated select columns, qualifier of another table
func verifH_C18_ast() {
	R := verifParam("rows", 2)
	qk := verifParam("q", 0)
	cols := []string{"a", "b", "s", "f"}
	tbl := &verifStubTable{cols: cols}
	for i := 0; i < R; i++ {
		row := []interface{}{int64(verifI32("a")), verifI64("b"), verifString("s", 1), verifBool("f")}
		// NULL pattern of the row: none, exactly one column, or all (one choice per row)
		switch k := verifChoice("nulls", 6); {
		case k == 5:
			row = []interface{}{nil, nil, nil, nil}
		case k > 0:
			row[k-1] = nil
		}
		tbl.rows = append(tbl.rows, row)
	}
	other := &verifStubTable{cols: []string{"a", "z"}, rows: [][]interface{}{{int64(1), "q"}}}
	rm := &verifRM{tables: map[string]*verifStubTable{"t": tbl, "u": other}}
	from := sql.TableExpression{FromClause: sql.FromClause{sql.TableName{Name: "t"}}}
	star := sql.SelectList{{ValueExpressionPrimary: sql.Asterisk{}}}
	anyCol := func(tag string) sql.ColumnReference {
		names := []string{"a", "b", "s", "f", "nosuch"}
		if verifParam("narrow", 0) == 1 {
			// quick tier with more rows: one column of each kind that matters here
			names = []string{"a", "s"}
		}
		return sql.ColumnReference{ColumnName: names[verifChoice(tag, len(names))]}
	}
	anyLit := func(tag string) interface{} {
		switch verifChoice(tag+"kind", 3) {
		case 0:
			return verifI64(tag + "i")
		case 1:
			return verifString(tag+"s", 1)
		default:
			return verifBool(tag + "b")
		}
	}
	switch qk {
	case 0:
		c := anyCol("col")
		var sl sql.SelectList
		switch verifChoice("agg", 5) {
		case 3:
			// an aggregate next to a comparison over a column (evaluated per row, or once for an empty input)
			sl = sql.SelectList{{ValueExpressionPrimary: sql.Count{}}, {ValueExpressionPrimary: sql.Predicate{ComparisonPredicate: sql.ComparisonPredicate{LHS: c, CompOp: sql.EQ, RHS: anyLit("e")}}}}
		case 4:
			sl = sql.SelectList{{ValueExpressionPrimary: sql.Predicate{ComparisonPredicate: sql.ComparisonPredicate{LHS: anyLit("e"), CompOp: sql.LT, RHS: c}}}, {ValueExpressionPrimary: sql.Average{ValueExpression: sql.ColumnReference{ColumnName: "a"}}}}
		case 0:
			sl = sql.SelectList{{ValueExpressionPrimary: sql.Average{ValueExpression: c}}}
		case 1:
			sl = sql.SelectList{{ValueExpressionPrimary: sql.Count{ValueExpression: c}}, {ValueExpressionPrimary: sql.Average{ValueExpression: sql.ColumnReference{ColumnName: "a"}}}}
		default:
			sl = sql.SelectList{{ValueExpressionPrimary: c}, {ValueExpressionPrimary: sql.Count{}}}
		}
		q := sql.Select{SelectList: sl, TableExpression: from}
		if verifChoice("groupby", 2) == 1 {
			q.GroupByClause = []sql.ColumnReference{anyCol("gcol")}
		}
		EvaluateSelect(q, rm)
	case 1:
		var l, r interface{}
		switch verifChoice("shape", 3) {
		case 0:
			l, r = anyCol("l"), anyLit("r")
		case 1:
			l, r = anyLit("l"), anyCol("r")
		default:
			l, r = anyCol("l"), anyCol("r")
		}
		op := sql.TokenType(verifIntFrom("op", verifAllOps))
		q := sql.Select{SelectList: star, TableExpression: from}
		q.WhereClause = sql.WhereClause{SearchCondition: sql.Predicate{ComparisonPredicate: sql.ComparisonPredicate{LHS: l, CompOp: op, RHS: r}}}
		EvaluateSelect(q, rm)
	case 2:
		q := sql.Select{SelectList: star, TableExpression: from}
		n := 1 + verifChoice("nkeys", 2)
		for i := 0; i < n; i++ {
			tt := sql.ASC
			if verifChoice(fmt.Sprintf("desc%d", i), 2) == 1 {
				tt = sql.DESC
			}
			q.SortSpecificationList = append(q.SortSpecificationList, sql.SortSpecification{SortKey: anyCol(fmt.Sprintf("key%d", i)), OrderingSpecification: sql.Token{Type: sql.TokenType(tt)}})
		}
		EvaluateSelect(q, rm)
	case 3:
		lim, off := verifI64("limit"), verifI64("offset")
		verifAssume(verifAnd(lim >= 0, off >= 0))
		q := sql.Select{SelectList: star, TableExpression: from}
		q.LimitActive, q.Limit = true, int(lim)
		q.OffsetActive, q.Offset = true, int(off)
		rows, _, err := EvaluateSelect(q, rm)
		verifAssert(err == nil, "limit-offset-ok")
		verifAssert(len(rows) <= R, "limit-offset-result-size")
		_ = math.MaxInt64
	case 4:
		w := sql.WhereClause{SearchCondition: sql.Predicate{ComparisonPredicate: sql.ComparisonPredicate{LHS: anyCol("l"), CompOp: sql.TokenType(verifIntFrom("op", verifAllOps)), RHS: anyLit("r")}}}
		switch verifChoice("stmt", 3) {
		case 0:
			EvaluateUpdate(sql.UpdateStatementSearched{TableName: "t", Set: []sql.SetClause{{ObjectColumn: "a", UpdateSource: anyLit("src")}}, Where: w}, rm)
		case 1:
			EvaluateDelete(sql.DeleteStatementSearched{TableName: "t", WhereClause: w}, rm)
		default:
			EvaluateInsert(verifInsertStmt("t", []string{"a"}, [][]interface{}{{anyLit("v1"), anyLit("v2")}, {}}), rm)
		}
	default:
		switch verifChoice("case", 7) {
		case 6:
			// joins of tables of different widths in both orders, every join type,
			// projecting the last column of each side (unmatched rows get NULL padding)
			l, r := "t", "u"
			if verifChoice("order", 2) == 1 {
				l, r = "u", "t"
			}
			lastCol := map[string]string{"t": "f", "u": "z"}
			j := sql.QualifiedJoin{LHS: sql.TableName{Name: l}, JoinType: verifJoinTypes[verifChoice("jt", 3)], RHS: sql.TableName{Name: r},
				JoinCondition: sql.Predicate{ComparisonPredicate: sql.ComparisonPredicate{LHS: sql.ColumnReference{Qualifier: l, ColumnName: "a"}, CompOp: sql.EQ, RHS: sql.ColumnReference{Qualifier: r, ColumnName: "a"}}}}
			q := sql.Select{SelectList: sql.SelectList{
				{ValueExpressionPrimary: sql.ColumnReference{Qualifier: l, ColumnName: lastCol[l]}},
				{ValueExpressionPrimary: sql.ColumnReference{Qualifier: r, ColumnName: lastCol[r]}}},
				TableExpression: sql.TableExpression{FromClause: sql.FromClause{j}}}
			if verifChoice("orderby", 2) == 1 {
				q.SortSpecificationList = []sql.SortSpecification{{SortKey: sql.ColumnReference{Qualifier: r, ColumnName: lastCol[r]}, OrderingSpecification: sql.Token{Type: sql.ASC}}}
			}
			EvaluateSelect(q, rm)
		case 0:
			EvaluateSelect(sql.Select{SelectList: star, TableExpression: sql.TableExpression{FromClause: sql.FromClause{sql.TableName{Name: "nosuch"}}}}, rm)
		case 1:
			EvaluateSelect(sql.Select{SelectList: sql.SelectList{{ValueExpressionPrimary: sql.ColumnReference{ColumnName: "nosuch"}}}, TableExpression: from}, rm)
		case 2:
			j := sql.QualifiedJoin{LHS: sql.TableName{Name: "t"}, JoinType: sql.LEFT_JOIN, RHS: sql.TableName{Name: "u"},
				JoinCondition: sql.Predicate{ComparisonPredicate: sql.ComparisonPredicate{LHS: sql.ColumnReference{ColumnName: "a"}, CompOp: sql.EQ, RHS: sql.ColumnReference{Qualifier: "u", ColumnName: "a"}}}}
			EvaluateSelect(sql.Select{SelectList: star, TableExpression: sql.TableExpression{FromClause: sql.FromClause{j}}}, rm)
		case 3:
			a := sql.DerivedColumn{ValueExpressionPrimary: sql.ColumnReference{ColumnName: "a"}}
			q := sql.Select{SelectList: sql.SelectList{a, a, {ValueExpressionPrimary: sql.Count{}}}, TableExpression: from}
			q.GroupByClause = []sql.ColumnReference{{ColumnName: "a"}}
			EvaluateSelect(q, rm)
		case 4:
			// a join condition that is not Boolean, and one over NULL-padded rows
			j := sql.QualifiedJoin{LHS: sql.TableName{Name: "t"}, JoinType: verifJoinTypes[verifChoice("jt", 3)], RHS: sql.TableName{Name: "u"}, JoinCondition: int64(1)}
			EvaluateSelect(sql.Select{SelectList: star, TableExpression: sql.TableExpression{FromClause: sql.FromClause{j}}}, rm)
		default:
			EvaluateSelect(sql.Select{SelectList: sql.SelectList{{ValueExpressionPrimary: sql.ColumnReference{Qualifier: "u", ColumnName: "a"}}}, TableExpression: from}, rm)
		}
	}
	verifReach("end")
}

var verifSessionStatements = []string{
	"SELECT * FROM t",
	"SELECT a, count(*) FROM t GROUP BY a",
	"SELECT avg(a) FROM t",
	"INSERT INTO t VALUES (1, 'x')",
	"INSERT INTO t (a) VALUES (2), (3)",
	"UPDATE t SET a = 5 WHERE a = 1",
	"DELETE FROM t WHERE a > 0",
	"CREATE TABLE t (a INT, s VARCHAR(10))",
	"CREATE TABLE w (x BIGINT)",
	"SELECT * FROM nosuch",
	"SHOW DATABASES",
	"CREATE DATABASE db",
	"USE db",
	"USE nosuch",
	"SELECT 1 = 1, 2 = 3",
	"SELECT * FROM t ORDER BY a LIMIT 1 OFFSET 1",
}

// H18-session: statement texts through Session.ExecQuery in every session
// state: no database selected, a failed USE, a selected database with no /
// empty / filled tables. Every call returns (nil or an error); none panics or hangs.
func verifH_C18_session() {
	steps := verifParam("steps", 2)
	state := verifParam("state", 0)
	verifFSReset()
	verifAssert(storage.InitStorage() == nil, "init")
	sess := &Session{}
	switch state {
	case 0: // nothing selected, no database exists
	case 1: // a database exists but USE failed
		verifAssert(sess.ExecQuery("CREATE DATABASE db") == nil, "create-db")
		verifAssert(sess.ExecQuery("USE nosuch") != nil, "use-missing-is-an-error")
	case 2: // selected, no tables
		verifAssert(sess.ExecQuery("CREATE DATABASE db") == nil, "create-db")
		verifAssert(sess.ExecQuery("USE db") == nil, "use")
	default: // selected, one empty table
		verifAssert(sess.ExecQuery("CREATE DATABASE db") == nil, "create-db")
		verifAssert(sess.ExecQuery("USE db") == nil, "use")
		verifAssert(sess.ExecQuery("CREATE TABLE t (a INT, s VARCHAR(10))") == nil, "create-table")
	}
	hist := ""
	for i := 0; i < steps; i++ {
		k := verifChoice("stmt", len(verifSessionStatements))
		hist += fmt.Sprintf("%d,", k)
		verifTag("stmts", hist)
		sess.ExecQuery(verifSessionStatements[k])
	}
	sess.Close()
	verifReach("end")
}
