//go:build verif

package engine

// Helpers shared by several harness files, kept out of the zz_verif_cNN.go files so
// that one of those can be left out (it no longer compiles against a changed
// tree) without taking the others with it.

import (
	"fmt"

	"github.com/mk6i/mkdb/sql"
	"github.com/mk6i/mkdb/storage"
)

// verifRecover models process death followed by start-up: the OS files of rs
// are dropped without any flush, InitStorage runs, and the database is reopened.
func verifRecover(rs *storage.RelationService, tag string) *storage.RelationService {
	storage.VerifAbandon(rs)
	err := storage.InitStorage()
	verifAssert(err == nil, tag+"recovery-ok")
	if err != nil {
		return nil
	}
	rs2, err := storage.VerifOpenRelation("db", 0)
	verifAssert(err == nil, tag+"reopen-ok")
	if err != nil {
		return nil
	}
	return rs2
}

type verifCrash struct{}

// verifRunWithCrash runs fn with a hook that, at every event accepted by
// match, chooses between dying there (panic caught here; nothing more is
// written) and going on. It reports whether the process "died" and at which event.
func verifRunWithCrash(match func(ev string) bool, fn func()) (crashed bool, at string) {
	n, pagesWritten, headerWritten := 0, 0, 0
	storage.VerifPoint = func(ev string, off uint64) {
		if ev == "wal.synced" {
			verifFSMarkSynced("data/db/wal")
		}
		if !match(ev) {
			return
		}
		n++
		// crashfrom=k: the first k-1 crash points are passed without a choice (long
		// statements: only the later points are explored)
		if n < verifParam("crashfrom", 0) {
			switch ev {
			case "page.write":
				pagesWritten++
			case "header.write":
				headerWritten++
			}
			return
		}
		if verifChoice("crash-here", 2) == 1 {
			at = fmt.Sprintf("%s#%d", ev, n)
			// what had been written completely before the process died
			verifTag("pages-written", fmt.Sprint(pagesWritten))
			verifTag("header-written", fmt.Sprint(headerWritten))
			panic(verifCrash{})
		}
		switch ev {
		case "page.write":
			pagesWritten++
		case "header.write":
			headerWritten++
		}
	}
	defer func() {
		storage.VerifPoint = nil
		if r := recover(); r != nil {
			if _, ok := r.(verifCrash); !ok {
				panic(r)
			}
			crashed = true
		}
	}()
	fn()
	return false, ""
}

func verifIsPageEvent(ev string) bool { return ev == "page.write" || ev == "header.write" }

type verifStubTable struct {
	cols []string
	rows [][]interface{}
}

// verifRM serves fixed tables; every Fetch returns fresh rows and fields (the
// engine rewrites both in place).
type verifRM struct {
	tables  map[string]*verifStubTable
	fetches int
}

func (m *verifRM) StartTxn() {}

func (m *verifRM) EndTxn()   {}

func (m *verifRM) CreateTable(r *storage.Relation, tableName string) error {
	return nil
}

func (m *verifRM) MarkDeleted(tableName string, rowID uint32) (storage.WALBatch, error) {
	return nil, nil
}

func (m *verifRM) Update(tableName string, rowID uint32, cols []string, updateSrc []interface{}) (storage.WALBatch, error) {
	return nil, nil
}

func (m *verifRM) Insert(tableName string, cols []string, vals []interface{}) (storage.WALBatch, error) {
	return nil, nil
}

func (m *verifRM) FlushWALBatch(batch storage.WALBatch) error { return nil }

func (m *verifRM) Fetch(tableName string) ([]*storage.Row, []*storage.Field, error) {
	m.fetches++
	t, ok := m.tables[tableName]
	if !ok {
		return nil, nil, storage.ErrTableNotExist
	}
	var fields []*storage.Field
	for _, c := range t.cols {
		fields = append(fields, &storage.Field{Column: c})
	}
	var rows []*storage.Row
	for i, r := range t.rows {
		// value by value, like storage.scanRelation: the slices get the same spare capacity
		row := &storage.Row{RowID: uint32(i + 1)}
		for _, v := range r {
			row.Vals = append(row.Vals, v)
		}
		rows = append(rows, row)
	}
	return rows, fields, nil
}

// verifCmpVals: reference comparison of two non-NULL values of the same type.
func verifCmpVals(op sql.TokenType, a, b interface{}) bool {
	switch x := a.(type) {
	case int64:
		y := b.(int64)
		switch op {
		case sql.EQ:
			return x == y
		case sql.NEQ:
			return x != y
		case sql.LT:
			return x < y
		case sql.LTE:
			return x <= y
		case sql.GT:
			return x > y
		case sql.GTE:
			return x >= y
		}
	case string:
		y := b.(string)
		switch op {
		case sql.EQ:
			return x == y
		case sql.NEQ:
			return x != y
		case sql.LT:
			return x < y
		case sql.LTE:
			return x <= y
		case sql.GT:
			return x > y
		case sql.GTE:
			return x >= y
		}
	case bool:
		y := b.(bool)
		switch op {
		case sql.EQ:
			return x == y
		case sql.NEQ:
			return x != y
		}
	}
	panic("verifCmpVals: ill-typed reference comparison")
}

var verifC05Cols = []string{"a", "b", "s", "f"}

var verifAllOps = []int{int(sql.EQ), int(sql.NEQ), int(sql.LT), int(sql.LTE), int(sql.GT), int(sql.GTE)}

// verifSortLE: row x sorts at or before row y under keys (column index in the result, descending flag).
func verifSortLE(x, y []interface{}, keys []int, desc []bool) bool {
	// lexicographic: x <= y iff for the first key where they differ, x is on the right side
	le := true // all keys equal so far => equal => <=
	for i := len(keys) - 1; i >= 0; i-- {
		a, b := x[keys[i]], y[keys[i]]
		var lt, eq bool
		switch av := a.(type) {
		case int64:
			lt, eq = av < b.(int64), av == b.(int64)
		case string:
			lt, eq = av < b.(string), av == b.(string)
		case bool:
			lt, eq = verifAnd(!av, b.(bool)), av == b.(bool)
		}
		if desc[i] {
			lt = verifAnd(!lt, !eq)
		}
		le = verifOr(lt, verifAnd(eq, le))
	}
	return le
}

func verifRowEq(x, y []interface{}) bool {
	if len(x) != len(y) {
		return false
	}
	eq := true
	for i := range x {
		eq = verifAnd(eq, verifSame(x[i], y[i]))
	}
	return eq
}

var verifJoinTypes = []sql.JoinType{sql.INNER_JOIN, sql.LEFT_JOIN, sql.RIGHT_JOIN}

// verifAvgOK: A is sum/n rounded to the nearest integer (either neighbour on an exact .5 tie).
// n is concrete here (the harness case-splits on the group size).
func verifAvgOK(A, sum int64, n int) bool {
	d := sum - A*int64(n)
	return verifAnd(2*d <= int64(n), 2*d >= -int64(n))
}

// verifExpectRow asserts that table t holds exactly the given rows (values bit for bit).
func verifExpectRows(rm RelationManager, rows [][]interface{}, tag string) {
	t := &verifTable{name: "t", cols: verifStdCols, rows: rows}
	verifCheckTable(rm, t, tag)
}

// verifLongString returns a symbolic string of n bytes (first byte symbolic, rest 'x').
func verifLongString(tag string, n int) string {
	b := make([]byte, n)
	for i := range b {
		b[i] = 'x'
	}
	if n > 0 {
		b[0] = verifU8(tag)
	}
	return string(b)
}
